"""Pipeline of the streaming properties:

   TLC: StreamMech refines StreamIdeal for the item layouts (Ends) in use          (design level)
   pyasn1: the real StreamingDecoder driven along every arrival schedule,          (executions)
           one event per Arrive / Close / Poll
   TLC: Trace_Stream (the ideal layer as acceptor) judges every poll               (trace validation)
"""
import json
import os
import random

from pyasn1.codec.ber import decoder as ber_dec
from pyasn1.codec.cer import decoder as cer_dec
from pyasn1.codec.der import decoder as der_dec, encoder as der_enc

from . import core, tlc, tlaval, codec_pipeline as P, codec_run as R, streams as S
from . import universe as U

STREAMING = {'ber': ber_dec.StreamingDecoder, 'cer': cer_dec.StreamingDecoder, 'der': der_dec.StreamingDecoder}


# ----------------------------------------------------------------------------- design-level model runs
def check_refinement(ctx, sc, layouts, devs=()):
    """layouts: iterable of (ends tuple, extra, cansay).  TLC: MechSpec => IdealSpec, invariants."""
    for n, (ends, extra, cansay) in enumerate(sorted(set(layouts))):
        name = 'MC_mech_%d' % n
        with open(sc.file(name + '.tla'), 'w') as f:
            f.write('---- MODULE %s ----\nEXTENDS StreamMech\nMCEnds == %s\nMCDevs == {%s}\n====\n' % (
                name, tlaval.to_tla(list(ends)), ', '.join('"%s"' % d for d in devs)))
        with open(sc.file(name + '.cfg'), 'w') as f:
            f.write('SPECIFICATION MechSpec\nCONSTANT Ends <- MCEnds\nCONSTANT Extra = %d\nCONSTANT CanSay = %s\n'
                    'CONSTANT Devs <- MCDevs\nINVARIANT PosInsideItem\nPROPERTY Refines\nPROPERTY PosAtItemEnd\n'
                    'PROPERTY RetryRepeatsRead\nCHECK_DEADLOCK FALSE\n' % (
                        extra, 'TRUE' if cansay else 'FALSE'))
        r = tlc.run(sc.file(name + '.tla'), sc.file(name + '.cfg'), sc, workers=8, timeout=1200, coverage=True)
        ctx.require_actions(r, ['MArrive', 'StartPoll', 'Choose', 'ReadOk', 'ReadShort', 'ReadNone'], 'StreamMech Ends=%s' % (list(ends),))
        ctx.add_tlc('mech refines ideal, Ends=%s Extra=%d CanSay=%s' % (list(ends), extra, cansay), r)
        if not r.ok:
            raise core.Machinery('refinement run failed for %s: %s %s\n%s' % (ends, r.violated, r.errors[:2], r.out[-1500:]))


def check_ideal_liveness(ctx, sc, ends, extra):
    name = 'MC_ideal'
    with open(sc.file(name + '.tla'), 'w') as f:
        f.write('---- MODULE %s ----\nEXTENDS StreamIdeal\nMCEnds == %s\n====\n' % (name, tlaval.to_tla(list(ends))))
    with open(sc.file(name + '.cfg'), 'w') as f:
        f.write('SPECIFICATION IdealFair\nCONSTANT Ends <- MCEnds\nCONSTANT Extra = %d\nCONSTANT CanSay = TRUE\n'
                'INVARIANT NeverAhead\nINVARIANT CompleteMeansAll\nINVARIANT TruncatedMeansEos\nPROPERTY UnderrunMeansMissing\n'
                'PROPERTY StopOnlyAtBoundary\nPROPERTY EosOnlyInsideItem\nPROPERTY ObjInOrder\nPROPERTY Terminates\n'
                'CHECK_DEADLOCK FALSE\n' % extra)
    r = tlc.run(sc.file(name + '.tla'), sc.file(name + '.cfg'), sc, workers=4, timeout=600)
    ctx.add_tlc('ideal layer safety+liveness Ends=%s Extra=%d' % (list(ends), extra), r)
    if not r.ok:
        raise core.Machinery('ideal layer run failed: %s %s\n%s' % (r.violated, r.errors[:2], r.out[-1500:]))


# ----------------------------------------------------------------------------- concrete streams
class Stream:
    """a concatenation of encodings of values of one type"""

    def __init__(self, sid, T, items, rules, guided, label):
        self.sid = sid
        self.T = T
        self.items = [bytes(w) for w in items]
        self.data = b''.join(self.items)
        self.ends = []
        n = 0
        for w in self.items:
            n += len(w)
            self.ends.append(n)
        self.rules = rules
        self.guided = guided
        self.label = label
        self.spec = U.build_type(T) if guided else None

    def matcher(self):
        T, guided = self.T, self.guided
        if guided:
            return lambda obj: json.dumps(U.project(T, obj), sort_keys=True)
        return lambda obj: (type(obj).__name__, json.dumps(R.leaves_of(obj), sort_keys=True),
                            bytes(der_enc.encode(obj)).hex())

    def reference(self):
        """what one-shot decoding of the complete bytes yields, item by item (None if it fails)"""
        m = self.matcher()
        out = []
        rest = self.data
        dec = R.DEC[self.rules]
        while rest:
            st, r = R.guarded(lambda: dec.decode(rest, asn1Spec=self.spec) if self.guided else dec.decode(rest))
            if st != 'ok':
                return None
            obj, rest2 = r
            if len(rest2) >= len(rest):
                return None
            try:
                out.append(m(obj))
            except Exception:
                return None
            rest = bytes(rest2)
        return out


def pick_streams(cases, max_len, max_streams, seed, min_items=1, max_items=3):
    """streams of 1..3 consecutive values of one type under one encoding mode, total length <= max_len,
    spread over type shapes and modes"""
    rnd = random.Random(seed)
    by_type = {}
    for c in cases:
        by_type.setdefault(json.dumps(c['T'], sort_keys=True), []).append(c)
    cands = []
    for tkey, cs in sorted(by_type.items()):
        T = cs[0]['T']
        modes = sorted({m for c in cs for m in c['forms']})
        for m in modes:
            wires = [c['forms'][m] for c in cs if m in c['forms']]
            wires = [w for w in wires if 2 <= len(w) <= max_len]
            if not wires:
                continue
            rules = m if m in ('der', 'cer') else 'ber'
            rnd.shuffle(wires)
            for n in range(min_items, max_items + 1):
                items, tot = [], 0
                for w in wires:
                    if len(items) < n and tot + len(w) <= max_len:
                        items.append(w)
                        tot += len(w)
                if len(items) == n:
                    cands.append((P.shape_key(T), m, n, T, items, rules))
    # round robin over (shape, mode)
    cands.sort(key=lambda c: (c[0], c[1], c[2]))
    rnd.shuffle(cands)
    seen, out = {}, []
    for shape, m, n, T, items, rules in sorted(cands, key=lambda c: (-sum(map(len, c[4])) // 4, c[0])):
        key = (shape.split('(')[0], m, n)
        if seen.get(key, 0) >= 1:
            continue
        seen[key] = seen.get(key, 0) + 1
        for guided in (True, False):
            if not guided and not P_self_describing(T):
                continue
            out.append((T, items, rules, guided, '%s/%s/%d items/%s' % (shape, m, n, 'guided' if guided else 'schemaless')))
        if len(out) >= max_streams:
            break
    return [Stream(i + 1, *s) for i, s in enumerate(out[:max_streams])]


def P_self_describing(T):
    for t in P.walk_types(T):
        if t['k'] == 'any' or any(o['m'] == 'I' for o in t.get('tags', [])):
            return False
        if t['k'] in ('setof', 'seqof') and t['of']['k'] == 'choice':
            return False
    return True


# ----------------------------------------------------------------------------- running schedules
def schedules_for(stream, kinds, all_partitions=True, sample=0, rnd=None, truncate_at=None):
    """yield (kind, parts, close_with_last, idle) ; truncate_at = k: only the first k octets ever arrive"""
    total = len(stream.data) if truncate_at is None else truncate_at
    comps = list(S.compositions(total)) if total > 0 else [[]]
    if not all_partitions and sample and len(comps) > sample:
        comps = rnd.sample(comps, sample)
    for kind in kinds:
        for parts in comps:
            for cwl in (True, False):
                for idle in (0, 1):
                    yield kind, parts, cwl, idle


def _run_job(job):
    (sid, rules, data, T, guided, refs, kind, parts, cwl, idle, extra_total) = job
    spec = U.build_type(T) if guided else None
    st = _STREAMS[sid]
    ev, detail, mech = S.run_schedule(STREAMING[rules], data, spec, refs, st.matcher(), kind, parts, cwl, idle)
    if '_Timeout' in [str(d) for d in detail]:
        # a poll cannot be repeated, the whole schedule can: a time-out counts only when the fresh run has one too
        spec = U.build_type(T) if guided else None
        ev, detail, mech = S.run_schedule(STREAMING[rules], data, spec, refs, st.matcher(), kind, parts, cwl, idle)
    return ev, detail, mech


_STREAMS = {}


def run_streams(ctx, streams, jobs_of, cansay=True):
    """jobs_of(stream) -> iterable of (kind, parts, cwl, idle, data(bytes fed in total)); returns traces"""
    traces = []
    tid = 0
    meta = {}
    for st in streams:
        _STREAMS[st.sid] = st
    jobs = []
    for st in streams:
        refs = st.reference()
        if refs is None or len(refs) != len(st.items):
            ctx.extra.setdefault('streams_skipped_invalid_reference', []).append(st.label)
            continue
        for (kind, parts, cwl, idle, upto) in jobs_of(st):
            jobs.append((st.sid, st.rules, st.data[:upto], st.T, st.guided, refs, kind, parts, cwl, idle, upto))
    results = core.pmap(_run_job, jobs, chunksize=64)
    for job, (ev, detail, mech) in zip(jobs, results):
        sid, rules, data, T, guided, refs, kind, parts, cwl, idle, upto = job
        st = _STREAMS[sid]
        tid += 1
        complete = [e for e in st.ends if e <= upto]
        traces.append({'id': tid, 'ends': complete, 'extra': upto - (complete[-1] if complete else 0), 'cansay': cansay,
                       'ev': ev, 'mech': mech})
        meta[tid] = {'stream': st.label, 'sid': sid, 'rules': rules, 'guided': guided, 'kind': kind, 'parts': parts,
                     'close_with_last': cwl, 'idle': idle, 'data': data.hex(), 'ends': st.ends, 'T': T,
                     'detail': detail, 'upto': upto}
    return traces, meta


def judge_streams(ctx, sc, traces, name='strace', timeout=3000):
    slim = [{k: v for k, v in t.items() if k != 'mech'} for t in traces]
    try:
        printed = tlc.run_traces(ctx, sc, 'Trace_Stream', slim, name, nev=lambda t: len(t['ev']) // 3, max_events=400000,
                                 heap='16g', timeout=timeout)
    except tlc.AcceptorFailure as e:
        raise core.Machinery('stream acceptor failed: %s' % e)
    rejects, devs = [], {}
    for p in printed:
        if isinstance(p, list) and len(p) == 4 and p[0] == 'REJECT':
            rejects.append((p[1], p[2], p[3]))
        if isinstance(p, list) and len(p) == 4 and p[0] == 'DEV':
            devs[(p[1], p[2])] = sorted(p[3])
    return sorted(set(rejects)), devs


def judge_mech(ctx, sc, traces, name='mtrace', timeout=3000):
    """mechanism-level acceptor (spec/Trace_Mech.tla) over the read/seek/mark events of the K3 runs"""
    mt = [{'id': t['id'], 'ends': t['ends'], 'ev': t['mech']} for t in traces if t.get('mech')]
    if not mt:
        return [], 0
    # self-test: drop the rewind after a short read / move a mark
    st = []
    for t in mt:
        ev = t['ev']
        for i in range(0, len(ev) - 4, 4):
            if ev[i] == 2 and ev[i + 1] > 0 and 0 < ev[i + 2] < ev[i + 1] and ev[i + 4] == 3 and len(st) < 2:
                c = {'id': SELFTEST_BASE + len(st), 'ends': t['ends'], 'ev': ev[:i + 4] + ev[i + 8:]}
                st.append(c)
                break
        if len(st) >= 2:
            break
    nev = sum(len(t['ev']) // 4 for t in mt + st)
    try:
        printed = tlc.run_traces(ctx, sc, 'Trace_Mech', mt + st, name, nev=lambda t: len(t['ev']) // 4, max_events=600000,
                                 heap='16g', timeout=timeout)
    except tlc.AcceptorFailure as e:
        raise core.Machinery('mechanism acceptor failed: %s' % e)

    class _R:      # noqa
        pass
    r = _R()
    r.printed = printed
    rej = sorted({(p[1], p[2], p[3]) for p in r.printed if isinstance(p, list) and len(p) == 4 and p[0] == 'REJECT'})
    if st and {x[0] for x in rej if x[0] >= SELFTEST_BASE} != {t['id'] for t in st}:
        raise core.Machinery('mechanism acceptor self-test failed (a dropped rewind was not rejected)')
    ctx.extra['mechanism_acceptor'] = '%d K3 executions, %d read/seek/mark/poll events, self-test: %d traces with the rewind removed rejected' % (
        len(mt), nev, len(st))
    return [x for x in rej if x[0] < SELFTEST_BASE], nev


SELFTEST_BASE = 10 ** 8


def stream_selftests(traces, k=4):
    """corrupt one logged field (an observation, a position, drop an arrival): must be rejected"""
    out = []
    for t in traces:
        ev = t['ev']
        codes = [ev[i] for i in range(0, len(ev), 3)]
        if OBJ_ in codes and len(out) < k:
            c = json.loads(json.dumps(t))
            j = codes.index(OBJ_)
            if len(out) % 2 == 0:
                c['ev'][3 * j] = -2                      # object reported as underrun
            else:
                c['ev'][3 * j + 1] = 0                   # object is not the expected one
            c['id'] = SELFTEST_BASE + len(out)
            out.append(c)
    return out


OBJ_ = -1


def finish_streams(ctx, sc, traces, meta, clauses=None, name='strace'):
    if not traces:
        raise core.Machinery('no stream traces')
    st = stream_selftests(traces)
    if not st:
        raise core.Machinery('no stream trace suitable for the acceptor self-test')
    rejects, devs = judge_streams(ctx, sc, traces + st, name=name)
    if {r[0] for r in rejects if r[0] >= SELFTEST_BASE} != {t['id'] for t in st}:
        raise core.Machinery('stream acceptor self-test failed')
    ctx.extra['stream_acceptor_selftest'] = '%d corrupted traces, all rejected' % len(st)
    bad = set()
    byid = {t['id']: t for t in traces}
    for tid, j, clause in rejects:
        if tid >= SELFTEST_BASE:
            continue
        if clauses is not None and clause not in clauses:
            continue
        m = meta[tid]
        f = {'clause': clause, 'kind': m['kind'], 'rules': m['rules'], 'guided': m['guided'],
             'close_with_last': m['close_with_last'], 'idle': m['idle'], 'nparts': len(m['parts']),
             'detail': (m['detail'] or [''])[0], 'truncated': m['upto'] < len(bytes.fromhex(m['data'])) or m.get('trunc', False),
             'kinds': sorted(P.kinds_in(m['T']))}
        if (tid, j) in devs:
            f['devs'] = devs[(tid, j)]
        tr = byid[tid]
        what = '%s at event %d: stream %s kind=%s parts=%s close_with_last=%s idle=%s data=%s' % (
            clause, j, m['stream'], m['kind'], m['parts'], m['close_with_last'], m['idle'], m['data'][:60])
        ctx.report(what, f, {'prop': ctx.prop, 'kind': 'stream', 'meta': m, 'trace': tr, 'event': j, 'clause': clause})
        bad.add(tid)
    mrej, mev = judge_mech(ctx, sc, traces, name=name + '_mech')
    for tid, j, clause in mrej:
        m = meta[tid]
        f = {'clause': clause, 'layer': 'mechanism', 'kind': m['kind'], 'rules': m['rules'], 'guided': m['guided'],
             'kinds': sorted(P.kinds_in(m['T']))}
        tr = byid[tid]
        ctx.report('%s at mechanism event %d: stream %s parts=%s close_with_last=%s data=%s' % (
            clause, j, m['stream'], m['parts'], m['close_with_last'], m['data'][:60]), f,
            {'prop': ctx.prop, 'kind': 'stream-mechanism', 'meta': m, 'mech_events(kind,a,b,c)*': tr['mech'], 'event': j, 'clause': clause})
        bad.add(tid)
    ctx.traces += len(traces) - len(bad)
    ctx.evaluations += sum(len(t['ev']) // 3 for t in traces) + mev
    for tid, m in meta.items():
        ctx.keys.add((m['stream'], m['kind'], len(m['parts']), m['close_with_last'], m['idle']))
    for t in traces[:2] + traces[len(traces) // 2:len(traces) // 2 + 2]:
        m = meta[t['id']]
        ctx.sample({'stream': m['stream'], 'data': m['data'], 'ends': m['ends'], 'kind': m['kind'], 'parts': m['parts'],
                    'close_with_last': m['close_with_last'], 'events(flat triples)': t['ev'][:60]})
    return rejects


# ----------------------------------------------------------------------------- K2: complete data, spurious None
def _run_k2_job(job):
    sid, rules, data, T, guided, refs, nones = job
    spec = U.build_type(T) if guided else None
    st = _STREAMS[sid]
    ev, detail = S.run_k2(STREAMING[rules], data, spec, refs, st.matcher(), nones)
    if '_Timeout' in [str(d) for d in detail]:
        # as above: only a time-out that repeats on a fresh run of the same schedule counts
        spec = U.build_type(T) if guided else None
        ev, detail = S.run_k2(STREAMING[rules], data, spec, refs, st.matcher(), nones)
    return ev, detail


def none_patterns(max_reads, limit):
    """which read calls answer None: every single call, every pair, alternating patterns"""
    pats = [()]
    pats += [(i,) for i in range(1, max_reads + 1)]
    pats += [(i, j) for i in range(1, max_reads + 1) for j in range(i + 1, max_reads + 1)]
    pats += [tuple(range(1, 4 * max_reads, 2)), tuple(range(2, 4 * max_reads, 2)), tuple(range(1, 4 * max_reads, 3))]
    return pats[:limit]


def run_k2_streams(ctx, streams, first_id, limit=200):
    for st in streams:
        _STREAMS[st.sid] = st
    jobs = []
    for st in streams:
        refs = st.reference()
        if refs is None or len(refs) != len(st.items):
            continue
        for nones in none_patterns(min(3 * len(st.data), 14), limit):
            jobs.append((st.sid, st.rules, st.data, st.T, st.guided, refs, nones))
    results = core.pmap(_run_k2_job, jobs, chunksize=64)
    traces, meta = [], {}
    tid = first_id
    for job, (ev, detail) in zip(jobs, results):
        sid, rules, data, T, guided, refs, nones = job
        st = _STREAMS[sid]
        tid += 1
        traces.append({'id': tid, 'ends': st.ends, 'extra': 0, 'cansay': False, 'ev': ev})
        meta[tid] = {'stream': st.label, 'sid': sid, 'rules': rules, 'guided': guided, 'kind': 'K2', 'parts': list(nones),
                     'close_with_last': True, 'idle': 0, 'data': data.hex(), 'ends': st.ends, 'T': T, 'detail': detail,
                     'upto': len(data)}
    return traces, meta
