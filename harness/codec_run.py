"""Execute library codec operations for specification cases and record what happened
(the 'code -> spec' traces judged by spec/Trace_Codec.tla)."""
import io
import signal
import sys

from pyasn1 import error
from pyasn1.codec.ber import decoder as ber_dec, encoder as ber_enc
from pyasn1.codec.cer import decoder as cer_dec, encoder as cer_enc
from pyasn1.codec.der import decoder as der_dec, encoder as der_enc
from pyasn1.type import base, univ, char, useful

from . import universe as U

ENC = {'ber': ber_enc, 'cer': cer_enc, 'der': der_enc}
DEC = {'ber': ber_dec, 'cer': cer_dec, 'der': der_dec}

sys.setrecursionlimit(3000)


class _Timeout(Exception):
    pass


def _alarm(signum, frame):
    raise _Timeout()


def guarded(fn, seconds=10, retry=False):
    """run fn() under a wall-clock guard: returns ('ok', result) | ('exc', exception).
    retry=True (fn must be repeatable): a timeout counts only if it repeats with a 6x limit, so that a
    stalled worker on a loaded machine cannot produce a spurious verdict."""
    st, r = _guarded(fn, seconds)
    if retry and st == 'exc' and isinstance(r, (_Timeout, MemoryError)):
        # environmental on a loaded machine unless it repeats (a genuine one is deterministic)
        st, r = _guarded(fn, seconds * 6)
    return st, r


def _guarded(fn, seconds):
    """The limit is on the CPU time the call itself consumes (ITIMER_VIRTUAL): a worker that is merely starved on a
    loaded machine does not burn CPU and cannot time out spuriously, a genuine endless loop does.  A generous
    wall-clock alarm (30x) remains as the backstop for a call that blocks without computing."""
    import threading
    if threading.current_thread() is not threading.main_thread():
        try:                       # no signals outside the main thread (C12's thread clause)
            return 'ok', fn()
        except BaseException as e:  # noqa
            if isinstance(e, (KeyboardInterrupt, SystemExit)):
                raise
            return 'exc', e
    old_v = signal.signal(signal.SIGVTALRM, _alarm)
    old_r = signal.signal(signal.SIGALRM, _alarm)
    res = None

    def cancel():
        signal.setitimer(signal.ITIMER_VIRTUAL, 0)
        signal.alarm(0)
    try:
        try:
            signal.setitimer(signal.ITIMER_VIRTUAL, seconds)
            signal.alarm(seconds * 30)
            res = ('ok', fn())
        except BaseException as e:  # noqa
            if isinstance(e, (KeyboardInterrupt, SystemExit)):
                raise
            res = ('exc', e)
        finally:
            cancel()
    except _Timeout as e:          # a timer fired while it was being cancelled
        cancel()
        if res is None:
            res = ('exc', e)
    finally:
        signal.signal(signal.SIGVTALRM, old_v)
        signal.signal(signal.SIGALRM, old_r)
    return res


def classify(e):
    if isinstance(e, error.SubstrateUnderrunError):
        return 'underrun'
    if isinstance(e, error.PyAsn1Error):
        return 'error'
    return 'crash'


def exc_name(e):
    return type(e).__name__


def lib_encode(codec, obj, asn1Spec=None, **opts):
    if asn1Spec is not None:
        opts['asn1Spec'] = asn1Spec
    st, r = guarded(lambda: ENC[codec].encode(obj, **opts), retry=True)
    if st == 'ok':
        return {'st': 'ok', 'wire': list(r)}
    return {'st': 'raise', 'cls': classify(r), 'exc': exc_name(r), 'wire': []}


def enc_event(codec, obj, defMode=True, chunk=0):
    opts = {}
    if codec == 'ber':
        opts = {'defMode': defMode, 'maxChunkSize': chunk}
    ev = {'op': 'enc', 'codec': codec, 'def': bool(defMode), 'chunk': chunk}
    ev.update(lib_encode(codec, obj, **opts))
    return ev


def lib_decode(rules, data, spec=None, **opts):
    """one-shot decode: {'st','exc','obj','rest'}"""
    if spec is not None:
        opts['asn1Spec'] = spec
    st, r = guarded(lambda: DEC[rules].decode(data, **opts), retry=isinstance(data, bytes))
    if st == 'ok':
        if not (isinstance(r, tuple) and len(r) == 2):
            return {'st': 'crash', 'exc': 'ReturnedNonTuple:%s' % type(r).__name__}
        return {'st': 'ok', 'obj': r[0], 'rest': list(r[1])}
    return {'st': classify(r), 'exc': exc_name(r)}


def dec_event(rules, data, T, spec, why, tail=(), src=0, guided=True, via='bytes'):
    """decode `data` with the `rules` decoder, guided by spec (or schemaless when guided=False)"""
    ev = {'op': 'dec', 'rules': rules, 'guided': guided, 'inp': list(data), 'why': why, 'tail': list(tail),
          'v': {'nul': 0}, 'proj': 'na', 'rest': [], 'exc': '', 'src': src, 'via': via}
    substrate = bytes(data) if via == 'bytes' else io.BytesIO(bytes(data))
    r = lib_decode(rules, substrate, spec if guided else None)
    ev['st'] = r['st']
    ev['exc'] = r.get('exc', '')
    if r['st'] == 'ok':
        ev['rest'] = r['rest']
        if not guided:
            return ev
        try:
            ev['v'] = U.project(T, r['obj'])
            ev['proj'] = 'ok'
        except U.ProjectionError as e:
            ev['proj'] = 'fail'
            ev['exc'] = 'Projection: %s' % e
        except Exception as e:  # a read accessor crashed on the result
            ev['proj'] = 'fail'
            ev['exc'] = 'Projection crashed: %s' % exc_name(e)
    return ev


# ------------------------------------------------------------------ schemaless results (C16)
def leaf_term(obj):
    """scalar leaf of a schemaless result -> value term, by the object's own class"""
    if isinstance(obj, univ.Boolean):
        return {'b': bool(int(obj))}
    if isinstance(obj, (univ.Integer,)):
        return U.int_term(int(obj))
    if isinstance(obj, univ.BitString):
        return {'bits': [int(c) for c in obj.asBinary()] if len(obj) else []}
    if isinstance(obj, univ.Null):
        return {'nul': 0}
    if isinstance(obj, univ.ObjectIdentifier):
        return {'arcs': [U.big(a) for a in obj.asTuple()]}
    if isinstance(obj, univ.Real):
        if obj.isPlusInf:
            return {'rk': 'pinf'}
        if obj.isMinusInf:
            return {'rk': 'minf'}
        m, b, e = tuple(obj)
        return U.real_term(m, b, e)
    if isinstance(obj, (univ.OctetString,)):      # includes char/useful types and Any
        return {'o': list(obj.asOctets())}
    raise U.ProjectionError('unknown leaf class %s' % type(obj).__name__)


def leaves_of(obj):
    """scalar leaves of a decoded object in iteration order, without instantiating anything"""
    if obj is None or not isinstance(obj, base.Asn1Item) or obj is base.noValue:
        raise U.ProjectionError('not an ASN.1 object')
    if isinstance(obj, univ.Choice):
        return leaves_of(obj.getComponent())
    if isinstance(obj, (univ.SequenceOfAndSetOfBase, univ.SequenceAndSetBase)):
        out = []
        for i in range(len(obj)):
            c = obj.getComponentByPosition(i, default=None, instantiate=False)
            if c is None or c is base.noValue:
                continue
            if not c.isValue and not isinstance(c, (univ.SequenceOfAndSetOfBase, univ.SequenceAndSetBase, univ.Choice)):
                continue
            out.extend(leaves_of(c))
        return out
    if not obj.isValue:
        raise U.ProjectionError('valueless leaf')
    return [leaf_term(obj)]


def decu_event(rules, codec, data, src=0):
    ev = {'op': 'decu', 'rules': rules, 'codec': codec, 'inp': list(data), 'isvalue': False, 'leaves': [],
          'reenc': [], 'reenc_st': 'na', 'rest': [], 'exc': '', 'src': src, 'tail': []}
    r = lib_decode(rules, bytes(data))
    ev['st'] = r['st']
    ev['exc'] = r.get('exc', '')
    if r['st'] != 'ok':
        return ev
    ev['rest'] = r['rest']
    obj = r['obj']
    try:
        ev['isvalue'] = U.is_value_object(obj)
        if ev['isvalue']:
            ev['leaves'] = leaves_of(obj)
    except Exception as e:
        ev['isvalue'] = False
        ev['exc'] = 'Projection: %s: %s' % (exc_name(e), e)
        return ev
    if ev['isvalue']:
        re = lib_encode('der', obj)
        ev['reenc_st'] = 'ok' if re['st'] == 'ok' else 'raise'
        ev['reenc'] = re['wire']
        if re['st'] != 'ok':
            ev['exc'] = re['exc']
    return ev
