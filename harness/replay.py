"""./check <ID> --replay <path>: re-execute the recorded case against the current tree and judge it again."""
import json

from . import core, tlc, codec_pipeline as P, codec_run as R, stream_pipeline as SP, streams as S
from . import universe as U


def replay(path, prop):
    rp = json.load(open(path))
    print(json.dumps({k: v for k, v in rp.items() if k not in ('trace',)}, indent=1, default=str)[:4000])
    ctx = core.Ctx(prop, 'quick', 0)
    kind = rp.get('kind')
    with tlc.Scratch('replay') as sc:
        if kind == 'codec' and rp['event']['op'] in ('enc', 'dec', 'decu'):
            T, v, e = rp['T'], rp['v'], rp['event']
            spec = U.build_type(T)
            if e['op'] == 'enc':
                ne = R.enc_event(e['codec'], U.build_value(T, v, spec), e.get('def', True), e.get('chunk', 0))
            elif e['op'] == 'dec':
                ne = R.dec_event(e['rules'], e['inp'], T, spec, e['why'], tail=e.get('tail', []), src=0, guided=e.get('guided', True),
                                 via=e.get('via', 'bytes'))
                if 'T2' in e:
                    ne = R.dec_event(e['rules'], e['inp'], e['T2'], U.build_type(e['T2']), e['why'])
                    ne['T2'] = e['T2']
                    ne['v'] = {'nul': 0}
            else:
                ne = R.decu_event(e['rules'], e['codec'], e['inp'])
            print('re-executed:', {k: (core.hexs(x) if k in ('wire', 'inp', 'rest') else x) for k, x in ne.items() if k != 'v'})
            rej = P.judge(ctx, sc, [{'id': 1, 'T': T, 'v': v, 'ev': [ne]}], name='replay')
            print('verdict of the acceptor:', rej or 'accepted')
            return 1 if rej else 0
        if kind == 'stream':
            m = rp['meta']
            st = SP.Stream(1, m['T'], [bytes.fromhex(m['data'])[a:b] for a, b in zip([0] + m['ends'][:-1], m['ends'])], m['rules'], m['guided'],
                           m['stream'])
            refs = st.reference()
            if m['kind'] == 'K2':
                ev, detail = S.run_k2(SP.STREAMING[m['rules']], st.data, st.spec, refs, st.matcher(), m['parts'])
                tr = {'id': 1, 'ends': st.ends, 'extra': 0, 'cansay': False, 'ev': ev}
            else:
                upto = m['upto']
                ev, detail, _mech = S.run_schedule(SP.STREAMING[m['rules']], st.data[:upto], st.spec, refs, st.matcher(), m['kind'], m['parts'],
                                                   m['close_with_last'], m['idle'])
                comp = [e for e in st.ends if e <= upto]
                tr = {'id': 1, 'ends': comp, 'extra': upto - (comp[-1] if comp else 0), 'cansay': True, 'ev': ev}
            print('re-executed events (flat triples):', ev, detail)
            rej, devs = SP.judge_streams(ctx, sc, [tr], name='replay')
            print('verdict of the acceptor:', rej or 'accepted', devs or '')
            return 1 if rej else 0
    # states of the generator machines: the replay file holds the state with the model's expectations; re-execute it
    state_replays = {'bitstr': ('c14', 'bitstr_replay'), 'oid': ('c14', 'oid_replay'), 'char': ('c14', 'char_replay'),
                     'named': ('c14', 'named_replay'), 'real': ('c14', 'real_replay'), 'scalar': ('c14', 'scalar_replay'), 'tags': ('c13', 'replay_state'), 'namedtypes': ('c09', 'check_state')}
    if kind in state_replays:
        import importlib
        mod, fn = state_replays[kind]
        f = getattr(importlib.import_module('harness.checks.' + mod), fn)
        st = rp['state'] if 'state' in rp else {'cs': rp['comps'], 'want': rp['model']}
        res = f(st)
        divs = res[0] if isinstance(res, tuple) else res
        print('re-executed against the current tree; divergences from the model:', divs or 'none')
        return 1 if divs else 0
    if kind == 'dispatch':
        import os
        import subprocess
        import sys
        with tlc.Scratch('replay') as sc:
            inp, outp = sc.file('in.json'), sc.file('out.ndjson')
            json.dump([[1, rp['rules'], rp['T'], rp['streaming'], rp['chunks']]], open(inp, 'w'))
            p = subprocess.run([sys.executable, '-m', 'harness.sm_collect', inp, outp], env=dict(os.environ, PYASN1_VERIF_TRACE='1'),
                               stdout=subprocess.PIPE, stderr=subprocess.STDOUT, text=True)
            if p.returncode:
                print(p.stdout[-1500:])
                return 2
            tr = [json.loads(x) for x in open(outp)]
            print('re-recorded hook events (10-tuples):', tr[0]['ev'])
            printed = tlc.run_traces(ctx, sc, 'Trace_DecoderSM', tr, 'replay', nev=lambda t: len(t['ev']) // 10)
            rej = [q for q in printed if isinstance(q, list) and q and q[0] == 'REJECT']
            print('verdict of the acceptor:', rej or 'accepted')
            return 1 if rej else 0
    print('(this kind of replay file is descriptive: the case above is self-contained; re-run the check to judge it again)')
    return 0
