"""Shared machinery of the checks: context, evidence, known findings, replay files, exit codes."""
import hashlib
import json
import multiprocessing
import os
import sys
import time

VERIF = os.path.dirname(os.path.dirname(os.path.abspath(__file__)))
# a run pointed at a scratch tree (PYASN1_REPO=<worktree>, used to try seeded changes) must not overwrite the evidence and
# replay files that describe /repo itself
_SCRATCH_TREE = os.path.realpath(os.environ.get('PYASN1_REPO', '/repo')) != os.path.realpath('/repo')
OUT = os.path.join(VERIF, 'scratch', 'scratch-tree-run') if _SCRATCH_TREE else VERIF
REPO = os.environ.get('PYASN1_REPO', '/repo')

EXIT_OK, EXIT_VIOLATION, EXIT_MACHINERY = 0, 1, 2


class Machinery(Exception):
    """The machinery itself failed (TLC crash, vacuous run, acceptor self-test failed)."""


class Ctx:
    def __init__(self, prop, tier, seed):
        self.prop = prop
        self.tier = tier
        self.seed = seed
        self.t0 = time.time()
        self.states = 0
        self.transitions = 0
        self.traces = 0
        self.evaluations = 0
        self.keys = set()           # distinct non-trivial case keys
        self.samples = []
        self.violations = []        # dicts: {what, features, replay}
        self.known_hits = {}        # finding id -> count
        self.extra = {}
        self.assumptions = [
            'TLC 1.8 (and, where named in the coverage, Apalache / TLAPS) and the JVM are trusted',
            'the TLA+ transcription of X.690 / X.680 and of the object protocols in spec/*.tla is the oracle; it is itself model-checked '
            '(reader inverts writer, prefix-freeness, refinement, laws of each machine) but not proved against the standards',
            'harness/universe.py (terms <-> pyasn1 objects through the public API, projection back) and the stream doubles of '
            'harness/streams.py are trusted; every acceptor run includes corrupted traces that must be rejected',
            'exhaustive only inside the bounds stated under coverage.rule; seeded random cases beyond them',
            'open known findings of known_findings.json are reported as KNOWN-FINDING, not as violations; they are matched by exact '
            'named deviations of the specification or by narrow feature signatures',
            'a time-out or an exception outside the library hierarchy counts only when it repeats on a fresh run of the same case',
        ]
        self.exhaustive = False
        self.rule = ''
        self.tlc_runs = []
        self.findings = [f for f in load_findings() if f['property'] == prop]

    @property
    def quick(self):
        return self.tier == 'quick'

    def add_tlc(self, name, r):
        self.states += r.distinct
        self.transitions += r.generated
        rec = {'run': name, 'distinct': r.distinct, 'generated': r.generated, 'wall_s': round(r.wall, 1), 'depth': r.depth}
        if getattr(r, 'coverage', None):
            rec['actions'] = {k: v[0] for k, v in sorted(r.coverage.items())}      # action -> distinct states it produced
        self.tlc_runs.append(rec)

    def require_actions(self, r, names, what):
        """vacuity guard: every named action of a design-level model must have produced states in this run (TLC -coverage)"""
        missing = [n for n in names if r.coverage.get(n, (0, 0))[1] == 0]
        if missing:
            raise Machinery('%s: action(s) %s never taken - the properties checked on this model would be vacuous' % (what, missing))

    def sample(self, x, limit=6):
        if len(self.samples) < limit:
            self.samples.append(x)

    # ---------------------------------------------------------------- verdicts
    def report(self, what, features, replay_obj):
        """A divergence between model and implementation. Matched against the open known findings;
        unmatched -> violation with a replay file."""
        devs = features.get('devs')
        if devs:
            # the reference model reproduced the observation exactly under these named deviations
            by_dev = {f.get('dev'): f for f in self.findings if f['status'] == 'open' and f.get('dev')}
            hit = [d for d in devs if d in by_dev]
            tolerated = set()
            for d in hit:
                tolerated.update(by_dev[d].get('tolerates', []))
            if hit and all(d in by_dev or d in tolerated for d in devs):
                for d in hit:
                    fid = by_dev[d]['id']
                    self.known_hits[fid] = self.known_hits.get(fid, 0) + 1
                return by_dev[hit[0]]['id']
        fid = match_finding(self.findings, features)
        if fid is not None:
            self.known_hits[fid] = self.known_hits.get(fid, 0) + 1
            return fid
        path = write_replay(self.prop, replay_obj) if len(self.violations) < 40 else '(replay file cap reached)'
        self.violations.append({'what': what, 'features': features, 'replay': path})
        return None

    def finish(self):
        wall = time.time() - self.t0
        if os.environ.get('VERIF_DEBUG'):
            groups = {}
            for v in self.violations:
                f = v['features']
                key = tuple((k, str(f.get(k))) for k in os.environ.get('VERIF_DEBUG_KEYS', 'clause,codec,rules,why,def,chunk,kind,expl_over_noindef,has_real10,trailing,st,exc').split(',') if k in f)
                groups.setdefault(key, []).append(v)
            for key, vs in sorted(groups.items(), key=lambda kv: -len(kv[1]))[:int(os.environ.get('VERIF_DEBUG_TOP', '30'))]:
                print('GROUP n=%d %s | %s' % (len(vs), ' '.join('%s=%s' % kv for kv in key), vs[0]['what'][:170]))
            print('GROUPS total=%d' % len(groups))
        for f in self.findings:
            if f['status'] == 'open' and f['id'] in self.known_hits:
                print('KNOWN-FINDING: property=%s %s: %s (%d cases)' % (
                    self.prop, f['id'], f['description'], self.known_hits[f['id']]))
        seen = set()
        for v in self.violations:
            if v['replay'] in seen:
                continue
            seen.add(v['replay'])
            if len(seen) <= 25:
                print('VIOLATION property=%s replay=%s' % (self.prop, v['replay']))
                print('  ' + v['what'])
        if len(seen) > 25:
            print('  ... %d more violations (see evidence)' % (len(seen) - 25))
        cov = {
            'states': self.states, 'transitions': self.transitions,
            'traces_validated_against_impl': self.traces,
            'evaluations': self.evaluations, 'distinct_nontrivial': len(self.keys),
            'rule': self.rule, 'samples': self.samples[:8], 'exhaustive': self.exhaustive,
            'tlc_runs': self.tlc_runs,
            'known_findings_hit': self.known_hits,
            'violation_samples': [{'what': v['what'], 'replay': v['replay']} for v in self.violations[:10]],
        }
        cov.update(self.extra)
        ev = {'property_id': self.prop, 'tier': self.tier, 'seed': self.seed, 'level': 'model_checking',
              'coverage': cov, 'assumptions': self.assumptions, 'wall_s': round(wall, 2),
              'violations': len(seen)}
        os.makedirs(os.path.join(OUT, 'evidence'), exist_ok=True)
        with open(os.path.join(OUT, 'evidence', self.prop + '.json'), 'w') as f:
            json.dump(ev, f, indent=1, sort_keys=True, default=str)
        print('%s %s: states=%d transitions=%d traces=%d evaluations=%d distinct=%d known=%s violations=%d wall=%.1fs' % (
            self.prop, self.tier, self.states, self.transitions, self.traces, self.evaluations,
            len(self.keys), dict(self.known_hits), len(seen), wall))
        return EXIT_VIOLATION if seen else EXIT_OK


# -------------------------------------------------------------------- known findings
def load_findings():
    p = os.path.join(VERIF, 'known_findings.json')
    if not os.path.exists(p):
        return []
    with open(p) as f:
        return json.load(f)['findings']


def _match_one(want, have):
    """want: value | list of admissible values | {'contains': x} | {'any_of': [...]}"""
    if isinstance(want, dict):
        if 'contains' in want:
            return isinstance(have, (list, tuple, set, str)) and want['contains'] in have
        if 'not' in want:
            return not _match_one(want['not'], have)
        if 'prefix' in want:
            return isinstance(have, str) and have.startswith(want['prefix'])
        return False
    if isinstance(want, list):
        return have in want
    return want == have


def match_finding(findings, features):
    for f in findings:
        if f['status'] != 'open':
            continue
        for sig in f.get('signatures', []):
            if all(k in features and _match_one(w, features[k]) for k, w in sig.items()):
                return f['id']
    return None


# -------------------------------------------------------------------- replay files
def write_replay(prop, obj):
    d = os.path.join(OUT, 'replays', prop)
    os.makedirs(d, exist_ok=True)
    blob = json.dumps(obj, sort_keys=True, default=str)
    h = hashlib.sha1(blob.encode()).hexdigest()[:12]
    path = os.path.join(d, h + '.json')
    with open(path, 'w') as f:
        f.write(blob)
    return path


# -------------------------------------------------------------------- parallel map
def pmap(fn, items, procs=None, chunksize=16):
    procs = procs or min(16, os.cpu_count() or 4)
    if len(items) < 64 or procs == 1:
        return [fn(x) for x in items]
    ctx = multiprocessing.get_context('fork')
    with ctx.Pool(procs) as pool:
        return pool.map(fn, items, chunksize=chunksize)


def hexs(b):
    return bytes(b).hex()
