"""The pipeline shared by the codec properties:

   TLC (Codec machine over the universe: model invariants + state dump)   spec -> cases
   pyasn1 executed on every case, everything it returned recorded          cases -> traces
   TLC (Trace_Codec: the reference model judges every recorded event)      traces -> verdicts
"""
import json
import os

from . import tlc, tlaval, core
from . import universe as U

DEFAULT_INVARIANTS = ['TypeOK', 'AllFormsDecode', 'ReadersMonotone', 'DerFixpoint', 'ProperPrefixIsShort',
                      'TailPreserved', 'OneTLV', 'HeadersAreTags', 'StrictDer']


def write_mc(scratch, name, cfg, invariants):
    big = lambda n: tlaval.to_tla(U.big(n))
    mod = ['---- MODULE %s ----' % name, 'EXTENDS Codec',
           'MC_Kinds == {%s}' % ', '.join('"%s"' % k for k in cfg['kinds']),
           'MC_TagNums == {%s}' % ', '.join(big(n) for n in cfg['tagnums']),
           'MC_Classes == {%s}' % ', '.join(str(c) for c in cfg['classes']),
           'MC_Shapes == {%s}' % ', '.join('"%s"' % s for s in cfg['shapes']),
           'MC_Modes == {%s}' % ', '.join('"%s"' % m for m in cfg['modes']),
           'MC_Tails == {%s}' % ', '.join(tlaval.to_tla(t) for t in cfg.get('tails', [])),
           '====']
    mpath = scratch.file(name + '.tla')
    with open(mpath, 'w') as f:
        f.write('\n'.join(mod) + '\n')
    cpath = scratch.file(name + '.cfg')
    tlc.write_cfg(cpath, spec='Spec', invariants=invariants, constants=[
        'UKinds <- MC_Kinds', 'UTagNums <- MC_TagNums', 'UMaxStack = %d' % cfg['maxstack'],
        'UClasses <- MC_Classes', 'UShapes <- MC_Shapes', 'UPool = %d' % cfg.get('pool', 1), 'UModes <- MC_Modes', 'UTails <- MC_Tails',
        'UCuts = %s' % ('TRUE' if cfg.get('cuts') else 'FALSE')])
    return mpath, cpath


def generate(ctx, scratch, cfg, name='MC_gen', invariants=None, dump=True, timeout=3000):
    """Run the Codec machine; returns list of cases {'T','v','forms':{mode: wire}} (deterministic order)."""
    mpath, cpath = write_mc(scratch, name, cfg, invariants or DEFAULT_INVARIANTS)
    dpath = scratch.file(name + '.dump') if dump else None
    r = tlc.run(mpath, cpath, scratch, dump=dpath, timeout=timeout)
    ctx.add_tlc(name, r)
    if not r.ok:
        raise core.Machinery('model run %s failed: violated=%s errors=%s\n%s' % (
            name, r.violated, r.errors[:3], r.out[-3000:]))
    if not dump:
        return []
    cases = {}
    with open(dpath) as f:
        text = f.read()
    for st in tlaval.parse_dump(text):
        key = json.dumps([st['ty'], st['val']], sort_keys=True)
        c = cases.get(key)
        if c is None:
            c = cases[key] = {'T': st['ty'], 'v': st['val'], 'forms': {}}
        if st['ph'] == 'wire':
            c['forms'][st['md']] = st['wire']
    os.remove(dpath)
    out = [cases[k] for k in sorted(cases)]
    for i, c in enumerate(out):
        c['id'] = i + 1
    return out


JUDGE_CHUNK = 60000       # events per acceptor run: keeps the deserialised trace file well inside the JVM heap


def judge(ctx, scratch, traces, name='trace', timeout=3000, module='Trace_Codec'):
    """traces: list of {'id','T','v','ev'}; returns list of (id, event index (1-based), clause).
    The traces are handed to the acceptor in bounded chunks (one TLC run each)."""
    live = [t for t in traces if t['ev']]
    if not live:
        raise core.Machinery('no events to judge')
    chunks, cur, n = [], [], 0
    for t in live:
        if cur and n + len(t['ev']) > JUDGE_CHUNK:
            chunks.append(cur)
            cur, n = [], 0
        cur.append(t)
        n += len(t['ev'])
    chunks.append(cur)
    rejects = []
    devs = {}
    skips = set()
    ctx.last_ks = {}
    total = None
    for ci, chunk in enumerate(chunks):
        cname = name if len(chunks) == 1 else '%s-%d' % (name, ci + 1)
        path = scratch.file(cname + '.ndjson')
        nev = 0
        with open(path, 'w') as f:
            for t in chunk:
                nev += len(t['ev'])
                f.write(json.dumps({'id': t['id'], 'T': t['T'], 'v': t['v'], 'ev': t['ev']}) + '\n')
        cpath = scratch.file(cname + '.cfg')
        tlc.write_cfg(cpath, spec='TraceSpec')
        r = tlc.run(os.path.join(tlc.SPEC, module + '.tla'), cpath, scratch, env={'TRACE_FILE': path},
                    timeout=timeout, heap='12g')
        if not os.environ.get('VERIF_KEEP_SCRATCH'):
            os.remove(path)
        if not r.ok:
            raise core.Machinery('trace acceptor failed: errors=%s\n%s' % (r.errors[:3], r.out[-3000:]))
        # every event must have been consumed: one state per event plus one initial state per trace
        if r.distinct != nev + len(chunk):
            raise core.Machinery('trace acceptor consumed %d states, expected %d events + %d traces' % (
                r.distinct, nev, len(chunk)))
        if total is None:
            total = r
        else:
            total.generated += r.generated
            total.distinct += r.distinct
            total.wall += r.wall
            total.depth = max(total.depth or 0, r.depth or 0)
        for p in r.printed:
            if isinstance(p, list) and len(p) == 4 and p[0] == 'REJECT':
                rejects.append((p[1], p[2], p[3]))
            if isinstance(p, list) and len(p) == 5 and p[0] == 'REJECTK':
                rejects.append((p[1], p[2], p[3]))
                ctx.last_ks.setdefault((p[1], p[2]), []).append(p[4])
            if isinstance(p, list) and len(p) == 4 and p[0] == 'DEV':
                devs[(p[1], p[2])] = sorted(p[3])
            if isinstance(p, list) and len(p) == 3 and p[0] == 'SKIP':
                skips.add((p[1], p[2]))
    ctx.add_tlc(name if len(chunks) == 1 else '%s (%d acceptor runs)' % (name, len(chunks)), total)
    ctx.last_devs = devs
    ctx.last_skips = skips
    return sorted(set(rejects))


# -------------------------------------------------------------------- features of a case
def kinds_in(T, acc=None):
    acc = acc if acc is not None else set()
    acc.add(T['k'])
    for cp in T.get('comps', []):
        kinds_in(cp['t'], acc)
    for a in T.get('alts', []):
        kinds_in(a['t'], acc)
    if 'of' in T:
        kinds_in(T['of'], acc)
    return acc


def walk_types(T):
    yield T
    for cp in T.get('comps', []):
        yield from walk_types(cp['t'])
    for a in T.get('alts', []):
        yield from walk_types(a['t'])
    if 'of' in T:
        yield from walk_types(T['of'])


NOINDEF = {'bool', 'int', 'enum', 'null', 'oid', 'real'}
STRINGISH = {'octs', 'utf8', 'numeric', 'printable', 't61', 'videotex', 'ia5', 'graphic', 'visible', 'general',
             'universal', 'bmp', 'objdesc', 'gentime', 'utctime'}


def has_explicit(T):
    return any(op['m'] == 'E' for op in T.get('tags', []))


def type_features(T):
    kinds = kinds_in(T)
    return {
        'kind': T['k'],
        'kinds': sorted(kinds),
        'expl_over_noindef': any(t['k'] in NOINDEF and has_explicit(t) for t in walk_types(T)),
        'expl_tags': any(has_explicit(t) for t in walk_types(T)),
        'has_char': bool(kinds & (STRINGISH - {'octs'})),
        'has_real10': False,
    }


def value_has_real10(T, v):
    k = T['k']
    if k == 'real':
        return v.get('rk') == 'fin' and v.get('b') == 10
    if k in ('seq', 'set'):
        return any(c['p'] and value_has_real10(cp['t'], c['v']) for cp, c in zip(T['comps'], v['cs']))
    if k in ('seqof', 'setof'):
        return any(value_has_real10(T['of'], x) for x in v['es'])
    if k == 'choice':
        return value_has_real10(T['alts'][v['alt'] - 1]['t'], v['v'])
    return False


def case_features(case):
    f = type_features(case['T'])
    f['has_real10'] = value_has_real10(case['T'], case['v'])
    return f


def shape_key(T):
    """coarse key used to count distinct non-trivial cases"""
    k = T['k']
    tg = ''.join(op['m'] for op in T.get('tags', []))
    if k in ('seq', 'set'):
        return '%s%s(%s)' % (k, tg, ','.join(cp['mode'][0] + shape_key(cp['t']) for cp in T['comps']))
    if k in ('seqof', 'setof'):
        return '%s%s(%s)' % (k, tg, shape_key(T['of']))
    if k == 'choice':
        return 'choice%s(%s)' % (tg, '|'.join(shape_key(a['t']) for a in T['alts']))
    return k + tg


# -------------------------------------------------------------------- symptoms computed from recorded bytes
def tlv_end(data, pos=0):
    """offset just after the first TLV of data (tiny structural walker, -1 if malformed/short)"""
    n = len(data)
    try:
        if pos >= n:
            return -1
        first = data[pos]
        pos += 1
        if first & 0x1f == 0x1f:
            while True:
                b = data[pos]
                pos += 1
                if not b & 0x80:
                    break
        l = data[pos]
        pos += 1
        if l < 0x80:
            end = pos + l
            return end if end <= n else -1
        if l == 0x80:
            while True:
                if pos + 1 >= n:
                    return -1
                if data[pos] == 0 and data[pos + 1] == 0:
                    return pos + 2
                pos = tlv_end(data, pos)
                if pos < 0:
                    return -1
        k = l & 0x7f
        ln = int.from_bytes(bytes(data[pos:pos + k]), 'big')
        end = pos + k + ln
        return end if end <= n else -1
    except IndexError:
        return -1


def event_features(ev):
    f = {'op': ev['op']}
    if ev['op'] == 'hist':
        ok = [k for k, s_ in enumerate(ev['sts']) if s_ == 'ok']
        f['differing'] = sorted({ev['labels'][k].split(':')[0] for k in ok
                                 if ev['ders'][k] != ev['ders'][ok[0]] or ev['cers'][k] != ev['cers'][ok[0]]}) if ok else []
        f['statuses'] = sorted(set(ev['sts']))
        f['failing'] = sorted({ev['labels'][k].split(':')[0] for k, s_ in enumerate(ev['sts']) if s_ != ev['sts'][0]})
    for k in ('codec', 'def', 'chunk', 'rules', 'why', 'st', 'exc', 'guided', 'proj', 'cls', 'mode', 'via', 'rw', 'depth', 'sts', 'excs', 'path'):
        if k in ev:
            f[k] = ev[k]
    if ev['op'] == 'enc' and ev.get('st') == 'ok':
        e = tlv_end(ev['wire'])
        f['trailing'] = core.hexs(ev['wire'][e:]) if e >= 0 else 'malformed'
    if ev['op'] in ('dec', 'decu') and ev.get('st') == 'ok':
        f['rest_hex'] = core.hexs(ev.get('rest', []))
    return f


SELFTEST_BASE = 10 ** 7


def add_selftests(traces, k=5):
    """Copies of accepted-looking traces with one recorded field corrupted: the acceptor must reject
    each of them (the binding is demonstrated, not assumed)."""
    out = []
    for t in traces:
        if len(out) >= k:
            break
        for i, ev in enumerate(t['ev']):
            if ev['op'] == 'enc' and ev.get('st') == 'ok' and ev['codec'] == 'der' and len(ev['wire']) >= 3:
                c = json.loads(json.dumps(t))
                w = c['ev'][i]['wire']
                w[-1] = (w[-1] + 1) % 256
                c['ev'] = [c['ev'][i]]
                c['id'] = SELFTEST_BASE + len(out)
                out.append(c)
                break
            if ev['op'] == 'hist' and len(ev['ders']) >= 2 and ev['sts'][0] == 'ok' and ev['sts'][1] == 'ok' and len(ev['ders'][1]) >= 2:
                c = json.loads(json.dumps(t))
                c['ev'] = [c['ev'][i]]
                c['ev'][0]['ders'][1][-1] = (c['ev'][0]['ders'][1][-1] + 1) % 256
                c['id'] = SELFTEST_BASE + len(out)
                out.append(c)
                break
            if ev['op'] == 'dec' and ev.get('st') == 'ok' and ev.get('proj') == 'ok' and ev['why'] in ('own', 'form', 'tail'):
                c = json.loads(json.dumps(t))
                c['ev'] = [c['ev'][i]]
                c['ev'][0]['rest'] = c['ev'][0]['rest'] + [7]
                c['ev'][0]['src'] = 0
                c['id'] = SELFTEST_BASE + len(out)
                out.append(c)
                break
    return out


def codec_common_finish(ctx, sc, cases, traces, clauses=None, name='trace'):
    """Judge the traces with the reference model and turn rejections into findings/violations.
    clauses: the clause names that belong to the property being checked (others are ignored)."""
    byid = {t['id']: t for t in traces}
    for t in traces:
        if t.get('build_error'):
            ctx.report('cannot build the value with the public API: ' + t['build_error'],
                       dict(case_features(t), clause='Build', exc=t['build_error'].split(':')[0]),
                       {'prop': ctx.prop, 'kind': 'build', 'T': t['T'], 'v': t['v'], 'error': t['build_error']})
    live = [t for t in traces if t['ev']]
    selftests = add_selftests(live)
    if not selftests:
        raise core.Machinery('no trace suitable for the acceptor self-test')
    rejects = judge(ctx, sc, live + selftests, name=name)
    st_rejected = {r[0] for r in rejects if r[0] >= SELFTEST_BASE}
    if len(st_rejected) != len(selftests):
        raise core.Machinery('acceptor self-test failed: %d corrupted traces, %d rejected' % (
            len(selftests), len(st_rejected)))
    ctx.extra['acceptor_selftest'] = '%d corrupted traces, all rejected' % len(selftests)
    bad = set()
    for tid, idx, clause in rejects:
        if tid >= SELFTEST_BASE:
            continue
        if clauses is not None and clause not in clauses:
            continue
        t = byid[tid]
        ev = t['ev'][idx - 1]
        f = dict(case_features(t))
        f.update(event_features(ev))
        f['clause'] = clause
        if (tid, idx) in ctx.last_devs:
            f['devs'] = ctx.last_devs[(tid, idx)]
        if (tid, idx) in ctx.last_ks:
            f['cuts'] = sorted(ctx.last_ks[(tid, idx)])
        what = '%s: event %d (%s) of case %d, type %s' % (clause, idx, _ev_brief(ev), tid, shape_key(t['T']))
        ctx.report(what, f, {'prop': ctx.prop, 'kind': 'codec', 'T': t['T'], 'v': t['v'], 'event': ev,
                             'clause': clause, 'features': f})
        bad.add(tid)
    ctx.traces += len(live) - len(bad)
    ctx.evaluations += sum(len(t['ev']) for t in live)
    for t in live:
        for ev in t['ev']:
            ctx.keys.add((shape_key(t['T']), ev['op'], ev.get('codec') or ev.get('rules'), ev.get('def'), ev.get('chunk'), ev.get('why')))
    for t in live[:3] + live[len(live) // 2: len(live) // 2 + 2]:
        ctx.sample({'T': t['T'], 'v': t['v'], 'first_event': {k: (core.hexs(v) if k in ('wire', 'inp', 'rest') else v)
                                                          for k, v in t['ev'][0].items() if k != 'v'}})
    return rejects


def _ev_brief(ev):
    if ev['op'] == 'enc':
        return 'encode %s def=%s chunk=%s -> %s' % (ev['codec'], ev.get('def'), ev.get('chunk'),
                                                    core.hexs(ev['wire'])[:80] if ev['st'] == 'ok' else ev.get('exc'))
    if ev['op'] == 'hist':
        ok = [k for k, s_ in enumerate(ev['sts']) if s_ == 'ok']
        diff = [ev['labels'][k] for k in ok if ev['ders'][k] != ev['ders'][ok[0]] or ev['cers'][k] != ev['cers'][ok[0]]] if ok else []
        return 'histories %s: status %s; differing from the first: %s (first DER %s)' % (
            ev['labels'], sorted(set(ev['sts'])), diff, core.hexs(ev['ders'][0])[:60])
    if ev['op'] == 'same':
        return '%s: %s vs %s' % (ev.get('path'), core.hexs(ev['a'])[:60], core.hexs(ev['b'])[:60])
    if ev['op'] == 'pfxs':
        return 'prefixes of %s by %s guided=%s via=%s -> %s' % (core.hexs(ev['wire'])[:80], ev['rules'], ev['guided'], ev['via'],
                                                             [x for x in zip(range(len(ev['sts'])), ev['sts'], ev['excs']) if x[1] != 'underrun'][:6])
    return '%s %s %s %s -> %s %s' % (ev['op'], ev.get('rules'), ev.get('why', ''), core.hexs(ev.get('inp', []))[:80],
                                    ev.get('st'), ev.get('exc', ''))


# -------------------------------------------------------------------- python-generated extra cases (sizes)
def sc(kind, tags=()):
    return {'k': kind, 'tags': list(tags)}


def op(m, c, n):
    return {'m': m, 'c': c, 'n': U.big(n)}


def size_cases(thorough=False):
    """(T, v) with sizes around the X.690 length-octet and CER segment boundaries; too big for TLC to
    enumerate as part of the universe but cheap to judge one by one."""
    out = []
    pat = lambda n: [(i * 7 + 3) % 256 for i in range(n)]
    lens = [127, 128, 255, 256, 999, 1000, 1001, 2000, 2001] + ([65535, 65536] if thorough else [])
    for n in lens:
        out.append((sc('octs'), {'o': pat(n)}))
    for n in (1000, 1001, 2001):
        out.append((sc('utf8'), {'o': [97 + (i % 26) for i in range(n)]}))
        out.append((sc('ia5', [op('E', 2, 1)]), {'o': [65 + (i % 26) for i in range(n)]}))
        out.append((sc('octs', [op('I', 2, 31)]), {'o': pat(n)}))
    for nbits in (7992, 7999, 8000, 8001, 8008, 16001):
        out.append((sc('bits'), {'bits': [(i * 5 + 1) % 3 % 2 for i in range(nbits)]}))
    out.append(({'k': 'seqof', 'tags': [], 'of': sc('int')},
                {'es': [U.int_term(i - 60) for i in range(130)]}))
    out.append(({'k': 'setof', 'tags': [], 'of': sc('octs')},
                {'es': [{'o': x} for x in ([1], [1, 0], [1, 0, 0], [0, 255], [], [1], [2])]}))
    out.append(({'k': 'seq', 'tags': [], 'comps': [
        {'name': 'a', 't': sc('octs'), 'mode': 'req'},
        {'name': 'b', 't': sc('bits', [op('I', 2, 0)]), 'mode': 'opt'}]},
        {'cs': [{'p': True, 'v': {'o': pat(1500)}}, {'p': True, 'v': {'bits': [1] * 8009}}]}))
    return out
