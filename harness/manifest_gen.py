"""Regenerates MANIFEST.json from the table below (python -m harness.manifest_gen)."""
import json, os
VERIF = os.path.dirname(os.path.dirname(os.path.abspath(__file__)))
props = [json.loads(l) for l in open(os.path.join(VERIF, 'properties.jsonl'))]

CODEC_TEXT = ("TLC enumerates the Codec machine (spec/Codec.tla) over the bounded type/value universe of spec/Universe.tla and "
              "checks the reference model's own invariants; every generated case is replayed into pyasn1 and every recorded "
              "library call is judged by the TLA+ reference (spec/X690.tla) through the trace acceptor spec/Trace_Codec.tla. "
              "Exhaustive inside the stated universe, nothing outside it.")
CODEC_NOTE = ("Trusted: the TLA+ transcription of X.690/X.680 in spec/X690.tla (itself model-checked: reader inverts writer on every "
              "form, prefix-freeness, tail preservation, reader monotonicity), TLC, the term<->object binding in harness/universe.py "
              "(public pyasn1 API only). Known findings are matched by exact named deviations of the reference encoder or by narrow "
              "feature signatures (known_findings.json).")
STREAM_TEXT = ("TLC model-checks the mechanism specification against the ideal one (refinement, invariants, liveness) for the layouts in "
               "use; the real implementation is then driven along exhaustively enumerated schedules / histories and every "
               "recorded step is accepted or rejected by a TLA+ trace acceptor that reuses the specification's actions. "
               "Exhaustive within the stated bounds (stream length, history length), sampled beyond them.")
GEN_TEXT = ("A TLA+ module states the semantics (constraint denotation, time grammar and canonical form, well-typedness, open-type "
            "resolution); TLC either generates every obligation of a bounded generator machine, which the harness replays into "
            "pyasn1, or accepts/rejects every recorded library call through a trace acceptor built on the same operators. "
            "Exhaustive within the stated bounds.")
CLAIMED = {
    'C01': ('6 C01', 'spec-generated (type,value) cases x 12 encoder modes, round trip judged by the reference model'),
    'C02': ('6 C02', 'DER/CER round trips through every wider decoder + agreement, judged by the reference model'),
    'C03': ('6 C03', 'byte identity of DER/CER with the TLA+ reference encoder; BER output read by the TLA+ reference reader'),
    'C06': ('6 C06', 'every proper prefix of library and reference encodings, one-shot clause'),
    'C07': ('6 C07', 'encoding + tail, one-shot clause; streaming clause: back-to-back encodings (also > 8 KiB) through the real StreamingDecoder, one object per encoding and position = end of that encoding, judged by Trace_Stream and Trace_Mech'),
    'C09': ('6 C09', 'all sender options of the reference encoder (length forms, def/indef mixes, segmentation, TRUE octets, SET order, defaults) decoded by pyasn1; component windows of spec/NamedTypes.tla (every component list up to 4/5) replayed into pyasn1.type.namedtype'),
    'C13': ('6 C13', 'tag algebra of spec/X690.tla vs tagSet objects, identifier octets, near-miss rejection; tagging-history machine spec/Tags.tla (action properties by TLC, every history replayed into TagSet / subtype / TagMap)'),
    'C15': ('6 C15', 'single-element non-canonical rewrites validated by the reference readers, then required to be rejected'),
    'C16': ('6 C16', 'schemaless decoding of self-describing encodings: leaves and DER re-encoding'),
    'C05': ('6 C05', 'StreamMech refines StreamIdeal (TLC); every arrival partition x close timing x idle polls x stream kinds driven through the real StreamingDecoder, each poll judged by the ideal layer (Trace_Stream); every read/seek/mark of the K3 executions judged by the read protocol (Trace_Mech)'),
    'C08': ('6 C08', 'all short strings over a structural alphabet + single mutations of valid encodings; status class and step bound judged by Trace_Clean; dispatch state machine spec/DecoderSM.tla model-checked (acyclic, terminating) and the decoder\'s own transitions + stream positions, recorded through the PYASN1_VERIF_TRACE hook, validated by Trace_DecoderSM'),
    'C04': ('6 C04', 'construction histories (assignment orders, explicit/implicit DEFAULTs, decode of every reference form, clones, read-only uses) of one abstract value: DER/CER equal across histories and equal to the reference DER; decode/re-encode fixpoint'),
    'C10': ('6 C10', 'every input a guided decoder accepts (neighbour-type encodings and mutations) judged by the independent well-typedness evaluator spec/WellTyped.tla, then re-encode/re-decode fixpoint; every case of the generator machine spec/CompCons.tla (WITH COMPONENTS, SIZE under and/or/not) decoded under the constrained type and compared with the denotation'),
    'C12': ('6 C12', 'Session.tla (interleavings of suspended decoders, one-shot calls, debug switch) model-checked; recorded interleavings on one shared schema object, snapshots around every call, outcomes vs isolated runs, debug on, threads (sampled), judged by Trace_Session'),
    'C14': ('6 C14', 'generator machine spec/Constraint.tla: every (expression tree, candidate), derivation chain and value-producing operation state replayed into pyasn1 and compared with the set-theoretic verdict; operator-history and construction machines of the scalar types (spec/BitStr.tla, Oid.tla, ScalarObj.tla, CharStr.tla, NamedVals.tla, RealObj.tla) replayed observable by observable; constraints of constructed types (spec/CompCons.tla: component presence/absence, SIZE of SEQUENCE OF) replayed into the constraint call, isInconsistent and the five encoders'),
    'C17': ('6 C17', 'native round trip judged by Norm equality; Python-value+schema encodings compared octet for octet with value-object encodings'),
    'C18': ('6 C18', 'open-type matrix (container x field x tagging x governor x inner type x maps x codec x resolution) judged by JudgeOpen against the reference encoding of the inner value'),
    'C19': ('6 C19', 'object machines of spec/Container.tla (list / dict / at-most-one) as trace acceptor over all operation sequences of length 3 + random longer ones on real SEQUENCE OF (incl. slice reads/assignments), SEQUENCE, SET (incl. tag-addressed access) and CHOICE objects; named deviation F18 modelled exactly'),
    'C20': ('6 C20', 'X.680 time grammar and canonical-form predicate of spec/Time.tla judge datetime round trips over the grid and CER/DER outputs for every grammar string in the bounds'),
    'C11': ('6 C11', 'CacheWrap model (invariant + refinement of a seekable stream); exhaustive operation histories on the real CachingStreamWrapper accepted by Trace_Wrap; 10 substrate kinds compared by Trace_Kinds; inductive invariant of the cache bookkeeping discharged by Apalache for unbounded sizes'),
}
checks = []
for p in props:
    i = p['id']
    if i in CLAIMED:
        ref, tech = CLAIMED[i]
        checks.append({
            'property_id': i, 'quick_cmd': './check %s --tier quick' % i, 'thorough_cmd': './check %s --tier thorough' % i,
            'evidence_file': 'evidence/%s.json' % i, 'replay_cmd_template': './check %s --replay {path}' % i,
            'engine': 'tlc+trace', 'technique': 'TLA+ model (TLC) + trace validation of pyasn1 executions: ' + tech,
            'level_claimed': {'category': 'model_checking', 'text': STREAM_TEXT if i in ('C05', 'C08', 'C11', 'C12', 'C19') else GEN_TEXT if i in ('C14', 'C20', 'C18', 'C10') else CODEC_TEXT, 'design_ref': 'DESIGN.md section ' + ref},
            'level_note': CODEC_NOTE})
na = [{'property_id': p['id'], 'reason': 'check not built yet'} for p in props if p['id'] not in CLAIMED]
m = {'version': 1, 'setup_cmd': './setup.sh',
     'hooks': {'guard': 'PYASN1_VERIF_TRACE', 'enable': 'PYASN1_VERIF_TRACE=1 in the environment when pyasn1.codec.ber.decoder is imported turns its module attribute TRACE from None into a list that receives one tuple per state block of SingleItemDecoder.__call__ (enter / state / spec / eoo / exit); only harness/sm_collect.py (a subprocess of the C08 check) sets it. Every other observation comes from the stream doubles of the harness (read/seek/tell/mark); checks import pyasn1 from /repo (PYTHONPATH)',
               'baseline_off_cmd': 'cd /repo && /venv/bin/python -m pytest -q -p no:cacheprovider', 'source_commits': ['878a9983950d7242f39e51c3981c9e6e85a3d488', 'ed241affb376971ec9fbbb491da7c2b1333ab773'], 'add_only': True},
     'engines': [{'name': 'tlc+trace', 'path': 'harness/', 'serves_properties': sorted(CLAIMED),
                  'kind_free_text': 'TLC 1.8 model checking of spec/*.tla + replay into pyasn1 + TLC trace acceptors; Apalache 0.58 (inductive invariant of the cache bookkeeping, C11) and TLAPS (rank theorem of the dispatch walk, C08; tag laws, C13) for the unbounded lemmas'}],
     'checks': checks, 'not_applicable': na,
     'notes': 'Fix commits in /repo and known findings are listed in known_findings.json and DESIGN.md.'}
json.dump(m, open(os.path.join(VERIF, 'MANIFEST.json'), 'w'), indent=1)
print('claimed', sorted(CLAIMED), 'n/a', len(na))
