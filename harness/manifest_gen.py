"""Regenerates MANIFEST.json from the table below (python -m harness.manifest_gen)."""
import json, os
VERIF = os.path.dirname(os.path.dirname(os.path.abspath(__file__)))
props = [json.loads(l) for l in open(os.path.join(VERIF, 'properties.jsonl'))]

CODEC_TEXT = ("TLC enumerates the Codec machine (spec/Codec.tla) over the bounded type/value universe of spec/Universe.tla and "
              "checks the reference model's own invariants; every generated case is replayed into pyasn1 and every recorded "
              "library call is judged by the TLA+ reference (spec/X690.tla) through the trace acceptor spec/Trace_Codec.tla. "
              "Exhaustive inside the stated universe, nothing outside it.")
CODEC_NOTE = ("Trusted: the TLA+ transcription of X.690/X.680 in spec/X690.tla (itself model-checked: reader inverts writer on every "
              "form, prefix-freeness, tail preservation, reader monotonicity), TLC, the term<->object binding in harness/universe.py "
              "(public pyasn1 API only). Known findings are matched by exact named deviations of the reference encoder or by narrow "
              "feature signatures (known_findings.json).")
STREAM_TEXT = ("TLC model-checks the mechanism specification against the ideal one (refinement, invariants, liveness) for the layouts in "
               "use; the real implementation is then driven along exhaustively enumerated schedules / histories and every "
               "recorded step is accepted or rejected by a TLA+ trace acceptor that reuses the specification's actions. "
               "Exhaustive within the stated bounds (stream length, history length), sampled beyond them.")
CLAIMED = {
    'C01': ('6 C01', 'spec-generated (type,value) cases x 12 encoder modes, round trip judged by the reference model'),
    'C02': ('6 C02', 'DER/CER round trips through every wider decoder + agreement, judged by the reference model'),
    'C03': ('6 C03', 'byte identity of DER/CER with the TLA+ reference encoder; BER output read by the TLA+ reference reader'),
    'C06': ('6 C06', 'every proper prefix of library and reference encodings, one-shot clause'),
    'C07': ('6 C07', 'encoding + tail, one-shot clause'),
    'C09': ('6 C09', 'all sender options of the reference encoder (length forms, def/indef mixes, segmentation, TRUE octets, SET order, defaults) decoded by pyasn1'),
    'C13': ('6 C13', 'tag algebra of spec/X690.tla vs tagSet objects, identifier octets, near-miss rejection'),
    'C15': ('6 C15', 'single-element non-canonical rewrites validated by the reference readers, then required to be rejected'),
    'C16': ('6 C16', 'schemaless decoding of self-describing encodings: leaves and DER re-encoding'),
    'C05': ('6 C05', 'StreamMech refines StreamIdeal (TLC); every arrival partition x close timing x idle polls x stream kinds driven through the real StreamingDecoder, each poll judged by the ideal layer (Trace_Stream)'),
    'C08': ('6 C08', 'all short strings over a structural alphabet + single mutations of valid encodings; status class and step bound judged by Trace_Clean'),
    'C11': ('6 C11', 'CacheWrap model (invariant + refinement of a seekable stream); exhaustive operation histories on the real CachingStreamWrapper accepted by Trace_Wrap; 10 substrate kinds compared by Trace_Kinds'),
}
checks = []
for p in props:
    i = p['id']
    if i in CLAIMED:
        ref, tech = CLAIMED[i]
        checks.append({
            'property_id': i, 'quick_cmd': './check %s --tier quick' % i, 'thorough_cmd': './check %s --tier thorough' % i,
            'evidence_file': 'evidence/%s.json' % i, 'replay_cmd_template': './check %s --replay {path}' % i,
            'engine': 'tlc+trace', 'technique': 'TLA+ model (TLC) + trace validation of pyasn1 executions: ' + tech,
            'level_claimed': {'category': 'model_checking', 'text': STREAM_TEXT if i in ('C05', 'C08', 'C11') else CODEC_TEXT, 'design_ref': 'DESIGN.md section ' + ref},
            'level_note': CODEC_NOTE})
na = [{'property_id': p['id'], 'reason': 'check not built yet (work in progress; see DESIGN.md section 6)'}
      for p in props if p['id'] not in CLAIMED]
m = {'version': 1, 'setup_cmd': './setup.sh',
     'hooks': {'guard': 'PYASN1_VERIF_TRACE', 'enable': 'no source hooks are needed so far: the stream doubles of the harness observe every read/seek/tell/mark; checks import pyasn1 from /repo (PYTHONPATH)',
               'baseline_off_cmd': 'cd /repo && /venv/bin/python -m pytest -q -p no:cacheprovider', 'source_commits': [], 'add_only': True},
     'engines': [{'name': 'tlc+trace', 'path': 'harness/', 'serves_properties': sorted(CLAIMED),
                  'kind_free_text': 'TLC 1.8 model checking of spec/*.tla + replay into pyasn1 + TLC trace acceptors'}],
     'checks': checks, 'not_applicable': na,
     'notes': 'Fix commits in /repo and known findings are listed in known_findings.json and DESIGN.md.'}
json.dump(m, open(os.path.join(VERIF, 'MANIFEST.json'), 'w'), indent=1)
print('claimed', sorted(CLAIMED), 'n/a', len(na))
