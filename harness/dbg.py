"""debug helper: evaluate reference-model expressions for the (T,v) of a replay file"""
import json, sys, os, subprocess
from . import tlaval, tlc

def main():
    rp = json.load(open(sys.argv[1]))
    exprs = sys.argv[2:] or ['DER(T, v)']
    with tlc.Scratch('dbg') as sc:
        m = ['---- MODULE Dbg ----', 'EXTENDS X690', 'T == ' + tlaval.to_tla(rp['T']), 'v == ' + tlaval.to_tla(rp['v'])]
        if 'event' in rp and 'wire' in rp['event']:
            m.append('wire == ' + tlaval.to_tla(rp['event']['wire']))
        if 'event' in rp and 'inp' in rp['event']:
            m.append('inp == ' + tlaval.to_tla(rp['event']['inp']))
        for e in exprs:
            m.append('ASSUME PrintT(<<"%s", %s>>)' % (e.replace('"', "'"), e))
        m += ['VARIABLE x', 'Init == x = 0', 'Next == UNCHANGED x', '====']
        open(sc.file('Dbg.tla'), 'w').write('\n'.join(m))
        open(sc.file('Dbg.cfg'), 'w').write('INIT Init\nNEXT Next\n')
        r = tlc.run(sc.file('Dbg.tla'), sc.file('Dbg.cfg'), sc, workers=1)
        for line in r.out.splitlines():
            if line.startswith('<<') or 'rror' in line or line.startswith('  ') or 'ttempt' in line:
                print(line)
main()
