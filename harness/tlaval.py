"""Parser and printer for TLA+ values as TLC prints them (state dumps, -simulate traces, PrintT).

Python image of a TLA+ value:
  record -> dict, tuple/sequence -> list, set -> frozenset-like list wrapped in TlaSet,
  function (a :> b @@ ...) -> dict with non-string keys allowed, string -> str,
  TRUE/FALSE -> bool, integer -> int, model value/identifier -> TlaId.
The same image is what json.loads gives for the ndjson files the harness writes, so terms can
travel TLC -> Python -> TLC without any second representation.
"""
import re


class TlaSet(list):
    pass


class TlaId(str):
    pass


_TOK = re.compile(r'''
    \s*(?:
      (?P<str>"(?:[^"\\]|\\.)*")
    | (?P<num>-?\d+)
    | (?P<op><<|>>|\|->|:>|@@|\.\.|[\[\]{}(),])
    | (?P<id>[A-Za-z_][A-Za-z0-9_!]*)
    )''', re.X)


def tokenize(text):
    pos = 0
    out = []
    n = len(text)
    while pos < n:
        m = _TOK.match(text, pos)
        if not m:
            if text[pos:].strip() == '':
                break
            raise ValueError('cannot tokenize TLA value at %r' % text[pos:pos + 40])
        pos = m.end()
        kind = m.lastgroup
        out.append((kind, m.group(kind)))
    return out


class _P:
    def __init__(self, toks):
        self.t = toks
        self.i = 0

    def peek(self):
        return self.t[self.i] if self.i < len(self.t) else (None, None)

    def take(self, val=None):
        k, v = self.t[self.i]
        if val is not None and v != val:
            raise ValueError('expected %r got %r at token %d' % (val, v, self.i))
        self.i += 1
        return k, v

    def value(self):
        k, v = self.take()
        if k == 'str':
            return bytes(v[1:-1], 'utf-8').decode('unicode_escape')
        if k == 'num':
            n = int(v)
            if self.peek()[1] == '..':
                self.take()
                hi = self.value()
                return TlaSet(range(n, hi + 1))
            return n
        if k == 'id':
            if v == 'TRUE':
                return True
            if v == 'FALSE':
                return False
            return TlaId(v)
        if v == '<<':
            items = []
            if self.peek()[1] == '>>':
                self.take()
                return items
            while True:
                items.append(self.value())
                k2, v2 = self.take()
                if v2 == '>>':
                    return items
                if v2 != ',':
                    raise ValueError('bad tuple')
        if v == '{':
            items = TlaSet()
            if self.peek()[1] == '}':
                self.take()
                return items
            while True:
                items.append(self.value())
                k2, v2 = self.take()
                if v2 == '}':
                    return items
                if v2 != ',':
                    raise ValueError('bad set')
        if v == '[':
            rec = {}
            if self.peek()[1] == ']':
                self.take()
                return rec
            while True:
                k2, name = self.take()
                self.take('|->')
                rec[name] = self.value()
                k3, v3 = self.take()
                if v3 == ']':
                    return rec
                if v3 != ',':
                    raise ValueError('bad record')
        if v == '(':
            fn = {}
            while True:
                key = self.value()
                self.take(':>')
                fn[_hashable(key)] = self.value()
                k3, v3 = self.take()
                if v3 == ')':
                    return fn
                if v3 != '@@':
                    raise ValueError('bad function')
        raise ValueError('unexpected token %r' % (v,))


def _hashable(x):
    if isinstance(x, list):
        return tuple(_hashable(i) for i in x)
    return x


def parse(text):
    p = _P(tokenize(text))
    v = p.value()
    if p.i != len(p.t):
        raise ValueError('trailing tokens after TLA value')
    return v


def to_tla(x):
    """Render a JSON-like Python value as a TLA+ expression."""
    if isinstance(x, bool):
        return 'TRUE' if x else 'FALSE'
    if isinstance(x, int):
        return str(x)
    if isinstance(x, str):
        return '"' + x.replace('\\', '\\\\').replace('"', '\\"') + '"'
    if isinstance(x, TlaSet) or isinstance(x, (set, frozenset)):
        return '{' + ', '.join(to_tla(i) for i in x) + '}'
    if isinstance(x, (list, tuple)):
        return '<<' + ', '.join(to_tla(i) for i in x) + '>>'
    if isinstance(x, dict):
        if not x:
            raise ValueError('empty record cannot be written in TLA+')
        return '[' + ', '.join('%s |-> %s' % (k, to_tla(v)) for k, v in x.items()) + ']'
    raise TypeError('cannot render %r' % (x,))


_STATE_HDR = re.compile(r'^State (\d+):', re.M)


def parse_dump(text):
    """Parse a TLC '-dump' file: yields dict var -> value for every state."""
    parts = _STATE_HDR.split(text)
    # parts = [prefix, num, body, num, body, ...]
    for i in range(1, len(parts), 2):
        yield parse_state_body(parts[i + 1])


_VAR = re.compile(r'^/\\ ([A-Za-z_][A-Za-z0-9_]*) = ', re.M)


def parse_state_body(body):
    out = {}
    ms = list(_VAR.finditer(body))
    for j, m in enumerate(ms):
        end = ms[j + 1].start() if j + 1 < len(ms) else len(body)
        out[m.group(1)] = parse(body[m.end():end])
    return out


_SIM_STATE = re.compile(r'^STATE_(\d+) ==', re.M)
_SIM_ACT = re.compile(r'^\\\* <(\w+)')


def parse_sim_trace(text):
    """Parse one '-simulate file=' behaviour file: list of (action name, state dict)."""
    out = []
    chunks = re.split(r'^(?=\\\* )', text, flags=re.M)
    for ch in chunks:
        m = re.match(r'\\\* (?:<(\w+)[^\n]*|[^\n]*)\n', ch)
        s = _SIM_STATE.search(ch)
        if not s:
            continue
        act = m.group(1) if m and m.group(1) else 'Init'
        body = ch[s.end():]
        # the state body ends at a blank line
        body = body.split('\n\n')[0]
        out.append((act, parse_state_body(body)))
    return out
