"""C12 - codec calls are pure: no effect on schemas, inputs, configuration or each other."""
import hashlib
import itertools
import json
import os
import random
import sys
import threading

from pyasn1 import debug, error
from pyasn1.codec.ber import decoder as ber_dec
from pyasn1.codec.native import encoder as nat_enc
from pyasn1.type import base, univ

from .. import core, tlc, tlaval, codec_pipeline as P, codec_run as R, stream_pipeline as SP, streams as S
from .. import universe as U

GEN = dict(kinds=['int', 'octs', 'bits', 'bool', 'utf8', 'oid', 'real'], tagnums=[0, 31], classes=[2], maxstack=1,
           shapes=['scalar', 'seqof', 'setof', 'choice', 'deep', 'seq', 'set'], pool=1, modes=['der', 'ber_indef', 'ber_def_c1'])


# ------------------------------------------------------------------------------------ digests of objects
def digest(obj, depth=0):
    """semantic + structural snapshot of a pyasn1 object that does not touch it through mutating accessors"""
    if obj is None:
        return 'None'
    if obj is base.noValue:
        return 'noValue'
    if not isinstance(obj, base.Asn1Item):
        return repr(obj)[:200]
    parts = [type(obj).__name__, repr(obj.tagSet), repr(getattr(obj, 'subtypeSpec', None))]
    if isinstance(obj, base.ConstructedAsn1Type):
        ct = getattr(obj, 'componentType', None)
        if isinstance(obj, (univ.SequenceOfAndSetOfBase,)):
            parts.append('of:' + (digest(ct, depth + 1) if ct is not None and depth < 6 else 'None'))
        elif ct is not None:
            parts.append('fields:' + ','.join('%s%s%s:%s' % (nt.name, '?' if nt.isOptional else '', '=' if nt.isDefaulted else '',
                                                              digest(nt.asn1Object, depth + 1)) for nt in ct.namedTypes)
                         if depth < 6 else 'fields')
        cv = getattr(obj, '_componentValues', None)
        if cv is base.noValue or cv is None:
            parts.append('values:noValue')
        elif isinstance(cv, dict):
            parts.append('values:{%s}' % ','.join('%s:%s' % (k, digest(cv[k], depth + 1)) for k in sorted(cv)))
        else:
            parts.append('values:[%s]' % ','.join(digest(x, depth + 1) for x in cv))
        parts.append('cur:%r' % (getattr(obj, '_currentIdx', '-'),))
    else:
        parts.append('value:%r' % (getattr(obj, '_value', None),))
    return '|'.join(parts)


class Ids:
    def __init__(self):
        self.t = {}

    def __call__(self, x):
        h = hashlib.sha1(repr(x).encode()).hexdigest()
        return self.t.setdefault(h, len(self.t) + 1)


def outcome(fn):
    st, r = R.guarded(fn, seconds=20)
    if st == 'ok':
        return ('ok', r)
    return (R.classify(r) + ':' + R.exc_name(r), None)


# ------------------------------------------------------------------------------------ calls
def call_list(case, spec, fresh=False):
    """the codec calls exercised for one (T, v): name -> thunk returning a comparable outcome"""
    T, v = case['T'], case['v']
    sp = U.build_type(T) if fresh else spec
    calls = []

    def enc(codec, **kw):
        def go():
            obj = U.build_value(T, v, sp)
            return bytes(R.ENC[codec].encode(obj, **kw)).hex()
        return go

    def dec(rules, wire, guided=True):
        def go():
            r = R.DEC[rules].decode(bytes(wire), asn1Spec=sp) if guided else R.DEC[rules].decode(bytes(wire))
            return json.dumps(U.project(T, r[0]), sort_keys=True) if guided else json.dumps(R.leaves_of(r[0]), sort_keys=True), bytes(r[1]).hex()
        return go
    calls.append(('enc-der', enc('der')))
    calls.append(('enc-cer', enc('cer')))
    calls.append(('enc-ber-indef-c2', enc('ber', defMode=False, maxChunkSize=2)))
    for m in sorted(case['forms']):
        calls.append(('dec-' + m, dec('ber', case['forms'][m])))
    w = case['forms'].get('der')
    if w:
        bad = list(w)
        bad[len(bad) // 2] ^= 0x41
        calls.append(('dec-damaged', dec('ber', bad)))
        calls.append(('dec-truncated', dec('ber', w[:-1])))
        calls.append(('dec-der-strict', dec('der', w)))
    return calls


# ------------------------------------------------------------------------------------ sessions of suspended decoders
def session_traces(ctx, streams, ids, rnd):
    """all interleavings of the next() steps of two suspended decoders over one shared schema object"""
    traces, meta = [], {}
    pairs = []
    by_type = {}
    for st in streams:
        if st.guided:
            by_type.setdefault(json.dumps(st.T, sort_keys=True), []).append(st)
    for key, sts in sorted(by_type.items()):
        for a, b in itertools.combinations(sts[:3], 2):
            pairs.append((a, b))
        if len(sts) == 1:
            pairs.append((sts[0], sts[0]))
    tid = 0
    for a, b in pairs[:12 if ctx.quick else 60]:
        refs = []
        for st in (a, b):
            r = st.reference()
            refs.append(r)
        if any(r is None for r in refs):
            continue
        na, nb = len(a.items) + 1, len(b.items) + 1
        merges = list(itertools.combinations(range(na + nb), na))
        if len(merges) > (40 if ctx.quick else 400):
            merges = rnd.sample(merges, 40 if ctx.quick else 400)
        def play(merge, dbg, a=a, b=b, refs=refs, na=na, nb=nb):
            timed_out = [False]
            spec = U.build_type(a.T)                       # ONE schema object shared by both decoders and the one-shot calls
            snap0 = digest(spec)
            if dbg:
                debug.setLogger(debug.Debug('all', printer=lambda msg: None))
            try:
                srcs = [S.GrowingRaw(seekable=True), S.GrowingRaw(seekable=False)]
                its = [iter(SP.STREAMING[a.rules](srcs[0], asn1Spec=spec)), iter(SP.STREAMING[b.rules](srcs[1], asn1Spec=spec))]
                ev = []
                for d, st in enumerate((a, b)):
                    srcs[d].feed(st.data)
                    srcs[d].close_source()
                    ev += [1, d + 1, len(st.data), 1, 0]
                nobj = [0, 0]
                m = [a.matcher(), b.matcher()]
                order = [0 if i in merge else 1 for i in range(na + nb)]
                step = 0
                for d in order:
                    before = digest(spec)
                    code, payload = S.classify_poll(its[d])
                if code == S.CRASH and payload == '_Timeout':
                    timed_out[0] = True
                    idx = 0
                    if code == S.OBJ:
                        nobj[d] += 1
                        try:
                            pj = m[d](payload)
                        except Exception:
                            pj = None
                        if nobj[d] <= len(refs[d]) and pj == refs[d][nobj[d] - 1]:
                            idx = nobj[d]
                    ev += [2, d + 1, code, idx, 0]
                    ev += [3, 1, ids(before), ids(digest(spec)), 0]
                    step += 1
                    if step == 2:
                        # a one-shot call on the same schema object in the middle of the session
                        o = outcome(lambda: json.dumps(U.project(a.T, ber_dec.decode(a.items[0], asn1Spec=spec)[0]), sort_keys=True))
                        iso = outcome(lambda: json.dumps(U.project(a.T, ber_dec.decode(a.items[0], asn1Spec=U.build_type(a.T))[0]), sort_keys=True))
                        ev += [4, 0, ids(o), ids(iso), 0]
                        ev += [3, 1, ids(snap0), ids(digest(spec)), 0]
            finally:
                if dbg:
                    debug.setLogger(0)
            return ev, order, timed_out[0]

        for merge in merges:
            for dbg in (False, True):
                ev, order, timed_out = play(merge, dbg)
                if timed_out:      # a poll cannot be repeated, the session can: a time-out counts only when it repeats
                    ev, order, timed_out = play(merge, dbg)
                tid += 1
                traces.append({'id': tid, 'ends': [a.ends, b.ends], 'ev': ev})
                meta[tid] = {'kind': 'session', 'streams': [a.label, b.label], 'data': [a.data.hex(), b.data.hex()],
                             'order': order, 'debug': dbg, 'T': a.T}
    return traces, meta


# ------------------------------------------------------------------------------------ purity of single calls
def purity_events(case, ids, iso=None):
    """kind-3 and kind-4 events for one (T, v); returns (events, descriptions)"""
    T, v = case['T'], case['v']
    ev, what = [], []
    try:
        spec = U.build_type(T)
        obj = U.build_value(T, v, spec)
    except Exception:
        return ev, what
    if iso is None:
        iso = {name: outcome(fn) for name, fn in call_list(case, None, fresh=True)}
    # encoding does not change the value being encoded
    # abstract content, encoding, printing and comparison behaviour (lazily instantiated placeholders in the private
    # store do not count as a change as long as none of these moves)
    snap = lambda o: (outcome(lambda: json.dumps(U.project(T, o), sort_keys=True)), outcome(lambda: o.prettyPrint()),
                      outcome(lambda: o == U.build_value(T, v)), outcome(lambda: bytes(R.ENC['der'].encode(o)).hex()),
                      outcome(lambda: bool(o.isValue)), outcome(lambda: len(o) if T['k'] in ('seqof', 'setof', 'choice') else 0))
    before = snap(obj)
    for codec, kw in (('ber', {}), ('ber', {'defMode': False, 'maxChunkSize': 1}), ('cer', {}), ('der', {})):
        R.guarded(lambda: R.ENC[codec].encode(obj, **kw), seconds=10)
        after = snap(obj)
        ev += [3, 2, ids(before), ids(after), 0]
        what.append('value object %s after %s.encode(%s)' % (P.shape_key(T), codec, kw))
    R.guarded(lambda: nat_enc.encode(obj), seconds=10)
    ev += [3, 2, ids(before), ids(snap(obj)), 0]
    what.append('value object %s after native.encode' % P.shape_key(T))
    # decoding does not change the guiding type; the outcome does not depend on what ran before (shared schema)
    sbefore = digest(spec)
    for name, fn in call_list(case, spec):
        o = outcome(fn)
        ev += [4, 0, ids(o), ids(iso[name]), 0]
        what.append('%s of %s after the preceding calls on the same schema object: %r, isolated: %r' % (name, P.shape_key(T), o, iso[name]))
        ev += [3, 1, ids(sbefore), ids(digest(spec)), 0]
        what.append('schema object %s after %s' % (P.shape_key(T), name))
    # the same calls with debug logging on
    debug.setLogger(debug.Debug('all', printer=lambda msg: None))
    try:
        for name, fn in call_list(case, spec):
            o = outcome(fn)
            ev += [4, 0, ids(o), ids(iso[name]), 0]
            what.append('%s of %s with debug logging on: %r, isolated: %r' % (name, P.shape_key(T), o, iso[name]))
    finally:
        debug.setLogger(0)
    ev += [3, 1, ids(sbefore), ids(digest(spec)), 0]
    what.append('schema object %s after the calls with debug logging' % P.shape_key(T))
    # decoded results share nothing with the schema or with each other
    w = case['forms'].get('der')
    if w and T['k'] in ('seq', 'set', 'seqof', 'setof', 'choice'):
        st1, r1 = R.guarded(lambda: ber_dec.decode(bytes(w), asn1Spec=spec)[0])
        st2, r2 = R.guarded(lambda: ber_dec.decode(bytes(w), asn1Spec=spec)[0])
        if st1 == 'ok' and st2 == 'ok':
            p2 = outcome(lambda: json.dumps(U.project(T, r2), sort_keys=True))
            R.guarded(lambda: scramble(T, r1))
            ev += [3, 1, ids(sbefore), ids(digest(spec)), 0]
            what.append('schema object %s after editing a decoded result in place' % P.shape_key(T))
            ev += [3, 3, ids(p2), ids(outcome(lambda: json.dumps(U.project(T, r2), sort_keys=True))), 0]
            what.append('sibling decoded result of %s after editing the other one in place' % P.shape_key(T))
            o = outcome(lambda: json.dumps(U.project(T, ber_dec.decode(bytes(w), asn1Spec=spec)[0]), sort_keys=True))
            ev += [4, 0, ids(o), ids(p2), 0]
            what.append('decode of %s after a previous result was edited in place' % P.shape_key(T))
    return ev, what


def scramble(T, obj, depth=0):
    """edit a decoded result in place as deeply as possible (every member that can be reached, DEFAULTs included)"""
    k = T['k']
    if k in ('seq', 'set'):
        for i, cp in enumerate(T['comps']):
            try:
                c = obj[i]                         # instantiates DEFAULT / OPTIONAL members of the result
                scramble(cp['t'], c, depth + 1)
            except Exception:
                pass
            try:
                if cp['t']['k'] in ('int', 'enum'):
                    obj[i] = 4242
                elif cp['t']['k'] == 'bool':
                    obj[i] = not bool(obj[i])
                elif cp['t']['k'] in ('octs', 'utf8'):
                    obj[i] = 'edited'
            except Exception:
                pass
    elif k in ('seqof', 'setof'):
        for i in range(len(obj)):
            try:
                scramble(T['of'], obj[i], depth + 1)
            except Exception:
                pass
        try:
            if T['of']['k'] in ('int', 'enum'):
                obj.append(4242)
                obj[0] = 4243
            elif T['of']['k'] in ('octs', 'utf8'):
                obj.append('edited')
            else:
                obj.clear()
        except Exception:
            pass
    elif k == 'choice':
        try:
            scramble(T['alts'][obj.getName() and [a['name'] for a in T['alts']].index(obj.getName())]['t'], obj.getComponent(), depth + 1)
        except Exception:
            pass


def _purity_job(job):
    case, iso = job
    ids = Ids()
    ev, what = purity_events(case, ids, iso)
    return ev, what


def _iso_job(case):
    """the calls of one case in a process that has run no codec call before (forked from a pristine template)"""
    try:
        U.build_type(case['T'])
    except Exception:
        return None
    return {name: outcome(fn) for name, fn in call_list(case, None, fresh=True)}


def isolated_outcomes(cases):
    """'Runs alone': every case in its own process, forked from a fork server that imported the library but never called a
    codec, so no cache, memo or singleton state left by another call can be shared with the run it is compared to."""
    import multiprocessing
    mp = multiprocessing.get_context('forkserver')
    mp.set_forkserver_preload(['harness.checks.c12'])
    with mp.Pool(min(16, os.cpu_count() or 4), maxtasksperchild=1) as pool:
        return pool.map(_iso_job, cases, chunksize=1)


# ------------------------------------------------------------------------------------ neighbouring values on one constrained schema
def _neighbour_types():
    from pyasn1.type import constraint as C, char
    return {
        'BIT STRING (SIZE (8))': (lambda: univ.BitString(subtypeSpec=C.ConstraintsIntersection(C.ValueSizeConstraint(8, 8))),
                                  ['03020001', '03020780', '0303000001', '030100', '03020080', '03020180', '030200ff'],
                                  ['00000001', '1', '0000000000000001', '', '10000000', '1000000', '11111111']),
        'BIT STRING (SIZE (1..8))': (lambda: univ.BitString().subtype(subtypeSpec=C.ValueSizeConstraint(1, 8)),
                                     ['03020001', '03020780', '0303000001', '030100', '0303000080', '03020600'],
                                     ['00000001', '1', '0000000000000001', '', '1000000000000000', '00']),
        'OCTET STRING (SIZE (2))': (lambda: univ.OctetString().subtype(subtypeSpec=C.ValueSizeConstraint(2, 2)),
                                    ['04026162', '040161', '0403616263', '04020061', '04020000', '0400', '040100'],
                                    [b'ab', b'a', b'abc', b'\x00a', b'\x00\x00', b'', b'\x00']),
        'INTEGER (0..9)': (lambda: univ.Integer().subtype(subtypeSpec=C.ValueRangeConstraint(0, 9)),
                           ['020105', '02010a', '0201ff', '020100', '020109', '0202000a'], [5, 10, -1, 0, 9, True]),
        'IA5String (FROM ("a".."b"))': (lambda: char.IA5String().subtype(subtypeSpec=C.PermittedAlphabetConstraint('a', 'b')),
                                         ['16026162', '16026163', '1600', '160161', '160163'], ['ab', 'ac', '', 'a', 'c']),
    }


def neighbour_events(ids):
    """C12 'no effect on each other' for *different* values on one long-lived schema object: every ordered pair (A, B) of calls
    (decode of an encoding inside / outside the constraint, encode of a Python value under the schema): B after A on a shared
    schema object must give what B gives on a schema object of its own."""
    from pyasn1.codec.der import encoder as der_enc
    ev, what = [], []

    def show(r):
        v, rest = r
        return (v.prettyPrint(), len(v) if hasattr(v, '__len__') else -1, bytes(rest).hex())
    for name, (mk, wires, pyvals) in sorted(_neighbour_types().items()):
        def calls(spec):
            out = []
            for w in wires:
                out.append(('decode(%s)' % w, lambda w=w: show(ber_dec.decode(bytes.fromhex(w), asn1Spec=spec))))
            for pv in pyvals:
                out.append(('encode(%r, asn1Spec)' % (pv,), lambda pv=pv: bytes(der_enc.encode(pv, asn1Spec=spec)).hex()))
            return out
        iso = {}
        for i, _ in enumerate(calls(mk())):
            iso[i] = outcome(calls(mk())[i][1])            # each call on a schema object of its own
        n = len(iso)
        for a in range(n):
            for b in range(n):
                if a == b:
                    continue
                spec = mk()
                cl = calls(spec)
                outcome(cl[a][1])
                o = outcome(cl[b][1])
                ev += [4, 0, ids(o), ids(iso[b]), 0]
                what.append('%s of %s after %s on the same schema object: %r, on a schema object of its own: %r' % (
                    cl[b][0], name, cl[a][0], o, iso[b]))
    return ev, what


# ------------------------------------------------------------------------------------ threads
def thread_part(ctx, cases, rnd):
    """the same call mix on 4 OS threads sharing the schema objects, compared with isolated runs (sampled schedules)"""
    ev, what = [], []
    ids = Ids()
    picked = rnd.sample(cases, min(len(cases), 24 if ctx.quick else 120))
    old = sys.getswitchinterval()
    sys.setswitchinterval(1e-6)
    try:
        for case in picked:
            T = case['T']
            try:
                spec = U.build_type(T)
            except Exception:
                continue
            iso = {name: outcome(fn) for name, fn in call_list(case, None, fresh=True)}
            results = {}
            calls = call_list(case, spec)

            def worker(k):
                for rep in range(3):
                    for name, fn in calls[k % 2::2] + calls[(k + 1) % 2::2]:
                        results.setdefault((k, rep, name), outcome(fn))
            ths = [threading.Thread(target=worker, args=(k,)) for k in range(4)]
            for t in ths:
                t.start()
            for t in ths:
                t.join(60)
            for (k, rep, name), o in sorted(results.items()):
                ev += [4, 0, ids(o), ids(iso[name]), 0]
                what.append('%s of %s on thread %d (round %d), concurrently with 3 other threads: %r, isolated: %r' % (
                    name, P.shape_key(T), k, rep, o, iso[name]))
    finally:
        sys.setswitchinterval(old)
    return ev, what, ids


def run(ctx):
    rnd = random.Random(ctx.seed)
    with tlc.Scratch('c12') as sc:
        # design level: every interleaving of two suspended decoders, one-shot calls and the debug switch
        with open(sc.file('MC_sess.tla'), 'w') as f:
            f.write('---- MODULE MC_sess ----\nEXTENDS Session\nMCE1 == <<2, 5>>\nMCE2 == <<3>>\n====\n')
        with open(sc.file('MC_sess.cfg'), 'w') as f:
            f.write('SPECIFICATION Spec\nCONSTANT Ends1 <- MCE1\nCONSTANT Ends2 <- MCE2\nINVARIANT SchemaUnchanged\nINVARIANT Isolated\n'
                    'PROPERTY MemoOnlyGrows\nPROPERTY NonInterference\nCHECK_DEADLOCK FALSE\n')
        r = tlc.run(sc.file('MC_sess.tla'), sc.file('MC_sess.cfg'), sc, workers=8, timeout=1200, coverage=True)
        ctx.require_actions(r, ['Arrive', 'Close', 'Poll', 'OneShot', 'ToggleDebug'], 'Session')
        ctx.add_tlc('Session: interleavings of 2 suspended decoders + one-shot calls + debug switch', r)
        if not r.ok:
            raise core.Machinery('Session model run failed: %s %s\n%s' % (r.violated, r.errors[:2], r.out[-1500:]))
        cases = P.generate(ctx, sc, GEN, invariants=['TypeOK', 'AllFormsDecode'])
        rnd.shuffle(cases)
        # per shape, first the value that leaves most OPTIONAL/DEFAULT members out (defaults are then cloned out of the schema)
        cases.sort(key=lambda c: -json.dumps(c['v']).count('"p": false'))
        seen, picked = {}, []
        for c in cases:
            k = P.shape_key(c['T'])
            if seen.get(k, 0) >= (2 if ctx.quick else 8):
                continue
            seen[k] = seen.get(k, 0) + 1
            picked.append(c)
        picked = picked[:160 if ctx.quick else 1500]
        ids = Ids()
        streams = SP.pick_streams(cases, 16, 40 if ctx.quick else 120, ctx.seed, min_items=1, max_items=3)
        traces, meta = session_traces(ctx, streams, ids, rnd)
        isos = isolated_outcomes(picked)
        # the histories: worker processes live for the whole map, so each case runs after the calls of many other cases
        res = core.pmap(_purity_job, list(zip(picked, isos)), chunksize=4)
        tid = len(traces)
        for case, (ev, what) in zip(picked, res):
            if not ev:
                continue
            tid += 1
            traces.append({'id': tid, 'ends': [[1]], 'ev': ev})
            meta[tid] = {'kind': 'purity', 'T': case['T'], 'v': case['v'], 'what': what}
        tev, twhat, _ = thread_part(ctx, picked, rnd)
        if tev:
            tid += 1
            traces.append({'id': tid, 'ends': [[1]], 'ev': tev})
            meta[tid] = {'kind': 'threads', 'what': twhat}
        nev, nwhat = neighbour_events(ids)
        tid += 1
        traces.append({'id': tid, 'ends': [[1]], 'ev': nev})
        meta[tid] = {'kind': 'neighbours', 'what': nwhat}
        ctx.extra['neighbour_clause'] = ('%d ordered pairs of calls with different values (inside / outside the constraint, equal as numbers '
                                         'but of different length) on one shared constrained schema object, each compared with the call on a '
                                         'schema object of its own' % len(nwhat))
        selftest = [{'id': 10 ** 8, 'ends': [[1]], 'ev': [3, 1, 5, 6, 0, 4, 0, 7, 8, 0]},
                    {'id': 10 ** 8 + 1, 'ends': [[2]], 'ev': [1, 1, 2, 1, 0, 2, 1, -2, 0, 0]}]
        path = sc.file('sess.ndjson')
        with open(path, 'w') as f:
            for t in traces + selftest:
                f.write(json.dumps(t, separators=(',', ':')) + '\n')
        tlc.write_cfg(sc.file('sess.cfg'), spec='TraceSpec')
        r = tlc.run(os.path.join(tlc.SPEC, 'Trace_Session.tla'), sc.file('sess.cfg'), sc, env={'TRACE_FILE': path}, timeout=3000)
        ctx.add_tlc('session acceptor', r)
        if not r.ok:
            raise core.Machinery('session acceptor failed: %s\n%s' % (r.errors[:3], r.out[-2000:]))
        rej = [p for p in r.printed if isinstance(p, list) and len(p) == 4 and p[0] == 'REJECT']
        if {(p[1], p[3]) for p in rej if p[1] >= 10 ** 8} != {(10 ** 8, 'SharedObjectChanged'), (10 ** 8, 'OutcomeDependsOnHistory'),
                                                                (10 ** 8 + 1, 'ObservationDiffersFromIsolatedRun')}:
            raise core.Machinery('session acceptor self-test failed: %s' % [p for p in rej if p[1] >= 10 ** 8])
        ctx.extra['acceptor_selftest'] = 'changed snapshot, history-dependent outcome and a wrong observation injected: all rejected'
        bad = set()
        for _, t, j, clause in rej:
            if t >= 10 ** 8:
                continue
            m = meta[t]
            if m['kind'] == 'session':
                f = {'clause': clause, 'part': 'session', 'debug': m['debug']}
                what = '%s at event %d of the session %s order=%s debug=%s' % (clause, j, m['streams'], m['order'], m['debug'])
                rp = {'prop': 'C12', 'meta': m, 'event': j, 'clause': clause}
            else:
                # the j-th event of the trace = the j-th description
                desc = m['what'][j - 1] if j - 1 < len(m['what']) else '?'
                f = {'clause': clause, 'part': m['kind'], 'about': desc.split(' ')[0], 'debug': 'debug logging' in desc,
                     'with_exception': ':' in desc and 'Error' in desc}
                what = '%s: %s' % (clause, desc[:300])
                rp = {'prop': 'C12', 'kind': m['kind'], 'T': m.get('T'), 'v': m.get('v'), 'what': desc, 'clause': clause}
            ctx.report(what, f, rp)
            bad.add((t, j))
        n = sum(len(t['ev']) // 5 for t in traces)
        ctx.traces += n - len(bad)
        ctx.evaluations += n
        for t, m in meta.items():
            if m['kind'] == 'session':
                ctx.keys.add(('session', tuple(m['streams']), tuple(m['order']), m['debug']))
            elif m['kind'] == 'purity':
                ctx.keys.add(('purity', P.shape_key(m['T']), json.dumps(m['v'], sort_keys=True)[:80]))
        ctx.keys.add(('threads',))
        s0 = [m for m in meta.values() if m['kind'] == 'session'][:1]
        if s0:
            ctx.sample({'session': s0[0]['streams'], 'order of next() steps': s0[0]['order'], 'debug': s0[0]['debug'],
                        'events (kind,d,a,b,c)*': traces[0]['ev'][:60]})
        p0 = [m for m in meta.values() if m['kind'] == 'purity'][:1]
        if p0:
            ctx.sample({'purity checks for': P.shape_key(p0[0]['T']), 'first checks': p0[0]['what'][:4]})
        ctx.extra['thread_clause'] = 'sampled: %d outcomes from 4 concurrent threads compared with isolated runs (schedules not reproducible)' % (len(tev) // 5)
    ctx.rule = ('(a) TLC: every interleaving of Session.tla; (b) every merge (sampled above 40) of the next() steps of two suspended '
                'decoders sharing one schema object, with a one-shot call in between, debug logging off and on, each step followed '
                'by a snapshot comparison of the shared schema object; (c) per (type, value): snapshots of the value object around '
                'every encoder, of the schema around every decode (valid, damaged, truncated), outcome of every call (made after the '
                'calls of many other cases in a long-lived worker) compared with the same call in a process of its own, with debug logging on, after a sibling result was edited in place; (d) the call '
                'mix on 4 threads (sampled); (e) ordered pairs of calls with neighbouring values on one constrained schema object; all judged by spec/Trace_Session.tla')
