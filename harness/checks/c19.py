"""C19 - container objects refine their Python prototypes under any operation history."""
import itertools
import json
import os
import random

from pyasn1 import error
from pyasn1.codec.der import encoder as der_enc
from pyasn1.type import base, namedtype, tag, univ

from .. import core, tlc, codec_run as R

PH, NONE, NORET = -999, -998, -997


def itag(n):
    return univ.Integer().subtype(implicitTag=tag.Tag(tag.tagClassContext, tag.tagFormatSimple, n))


def make(kind):
    if kind == 'so':
        return univ.SequenceOf(componentType=univ.Integer())
    if kind == 'ch':
        return univ.Choice(componentType=namedtype.NamedTypes(
            namedtype.NamedType('x', univ.Integer()), namedtype.NamedType('y', itag(1)), namedtype.NamedType('z', itag(2))))
    return (univ.Set if kind == 'st' else univ.Sequence)(componentType=namedtype.NamedTypes(
        namedtype.NamedType('a', univ.Integer()), namedtype.OptionalNamedType('b', itag(0)),
        namedtype.DefaultedNamedType('c', itag(1).clone(0))))


NAMES = {'ch': ['x', 'y', 'z'], 'sq': ['a', 'b', 'c'], 'st': ['a', 'b', 'c']}


def name_of(kind, i):
    return NAMES[kind][i] if 0 <= i < 3 else 'nope'


def val(x):
    """projection of a component returned by the API"""
    if x is None or x is base.noValue:
        return NONE
    if isinstance(x, base.Asn1Item):
        if not x.isValue:
            return PH
        return int(x)
    if isinstance(x, bool):
        return 1 if x else 0
    if isinstance(x, int):
        return x
    return NORET


def observe(kind, obj):
    o = {}
    try:
        o['isv'] = bool(obj.isValue)
    except Exception:
        o['isv'] = False
    try:
        o['len'] = len(obj)
    except Exception:
        o['len'] = -1
    if kind == 'so':
        el = []
        for i in range(max(o['len'], 0)):
            c = obj.getComponentByPosition(i, instantiate=False)       # noValue = hole, valueless object = placeholder
            el.append(val(c))
        o['el'] = el
    elif kind == 'ch':
        try:
            nm = obj.getName()
            o['el'] = [NAMES['ch'].index(nm), val(obj.getComponent())]
        except error.PyAsn1Error:
            o['el'] = [-1, NONE]
    else:
        el = []
        for i in range(3):
            try:
                c = obj.getComponentByPosition(i, instantiate=False)
            except error.PyAsn1Error:
                c = None
            v = val(c)
            if v == PH:
                v = NONE
            if i == 2 and v == NONE:
                v = 0
            el.append(v)
        o['el'] = el
    st, r = R.guarded(lambda: der_enc.encode(obj), seconds=5)
    if st == 'ok':
        o['derst'], o['der'] = 'ok', list(r)
    else:
        o['derst'], o['der'] = 'refused' if isinstance(r, error.PyAsn1Error) else 'crash', []
    return o


def do(kind, obj, op):
    o, i, v = op
    if o == 'set':
        obj.setComponentByPosition(i, v)
    elif o == 'setitem':
        obj[i] = v
    elif o == 'setbyname':
        obj.setComponentByName(name_of(kind, i), v)
    elif o == 'setbytype':
        ts = make(kind).componentType[i].asn1Object.tagSet if 0 <= i < 3 else univ.Null.tagSet
        obj.setComponentByType(ts, v)
    elif o == 'getbytype':
        ts = make(kind).componentType[i].asn1Object.tagSet if 0 <= i < 3 else univ.Null.tagSet
        return val(obj.getComponentByType(ts))
    elif o == 'peekbytype':
        ts = make(kind).componentType[i].asn1Object.tagSet if 0 <= i < 3 else univ.Null.tagSet
        return val(obj.getComponentByType(ts, default=None, instantiate=False))
    elif o == 'getslice':
        r = obj[i:v]
        return len(r) if isinstance(r, list) else NORET
    elif o in ('setslice0', 'setslice1', 'setslice2'):
        obj[i:v] = [7, 8][:int(o[-1])]
    elif o == 'setslicebad':                 # the first new member is fine, the second is not: nothing may be stored
        obj[i:v] = [7, 'not a number']
    elif o == 'setbad':
        obj.setComponentByPosition(i, 'not a number')
    elif o == 'setbadobj':
        obj.setComponentByPosition(i, univ.OctetString('tag-incompatible'))
    elif o == 'appendbad':
        obj.append('not a number')
    elif o == 'append':
        obj.append(v)
    elif o == 'extend':
        obj.extend([v, v + 1])
    elif o == 'clear':
        obj.clear()
    elif o == 'reset':
        obj.reset()
    elif o == 'sort':
        obj.sort()
    elif o == 'sortrev':
        obj.sort(reverse=True)
    elif o == 'sortparity':
        obj.sort(key=lambda x: int(x) % 2, reverse=True)
    elif o == 'reverse':
        obj.reverse()
    elif o == 'len':
        return len(obj)
    elif o == 'getitem':
        return val(obj[i])
    elif o == 'getbyname':
        return val(obj[name_of(kind, i)])
    elif o == 'peek':
        return val(obj.getComponentByPosition(i, default=None, instantiate=False))
    elif o == 'peekbyname':
        return val(obj.getComponentByName(name_of(kind, i), default=None, instantiate=False))
    elif o == 'contains':
        if kind == 'so':
            return 1 if v in obj else 0
        return 1 if name_of(kind, i) in obj else 0
    elif o == 'count':
        return obj.count(v)
    elif o == 'index':
        return obj.index(v)
    elif o == 'getName':
        return NAMES['ch'].index(obj.getName())
    elif o == 'getComponent':
        return val(obj.getComponent())
    elif o == 'iter':
        list(obj)
    elif o == 'keys':
        list(obj.keys()), list(obj.values()), list(obj.items())
    elif o == 'prettyPrint':
        obj.prettyPrint()
    elif o == 'eq':
        obj == obj, obj != obj
    elif o == 'encode':
        try:
            der_enc.encode(obj)
        except error.PyAsn1Error:
            pass
    return NORET


def run_history(job):
    kind, hist = job
    obj = make(kind)
    ev = []
    for op in hist:
        o, i, v = op
        e = {'o': o, 'i': i, 'v': v, 'ret': NORET, 'cisv': False, 'cel': [], 'exc': ''}
        if o in ('clone', 'cloneschema'):
            st, r = R.guarded(lambda: obj.clone(cloneValueFlag=True) if o == 'clone' else obj.clone(), seconds=5)
            if st == 'ok':
                co = observe(kind, r)
                e['cisv'], e['cel'] = co['isv'], co['el']
        else:
            st, r = R.guarded(lambda: do(kind, obj, op), seconds=5)
        if st == 'ok':
            e['res'] = 'ok'
            if isinstance(r, int) and not isinstance(r, bool):
                e['ret'] = r
        else:
            e['exc'] = type(r).__name__
            # list.index() of a missing value raises ValueError in the prototype as well
            e['res'] = ('lookup' if isinstance(r, LookupError) or (o == 'index' and isinstance(r, ValueError))
                        else 'pyasn1' if isinstance(r, error.PyAsn1Error) else 'crash')
        e.update(observe(kind, obj))
        ev.append(e)
    return ev


def alphabet(kind):
    if kind == 'so':
        ops = [('set', i, 1) for i in (-1, 0, 1, 2, 3)] + [('setitem', i, 2) for i in (0, 1, 2)]
        ops += [('setbad', 0, 0), ('setbadobj', 0, 0), ('appendbad', 0, 0)]
        ops += [('append', 0, 1), ('append', 0, 2), ('extend', 0, 1), ('clear', 0, 0), ('reset', 0, 0), ('sort', 0, 0),
                ('reverse', 0, 0), ('len', 0, 0), ('sortrev', 0, 0), ('sortparity', 0, 0), ('append', 0, 3), ('append', 0, 4)]
        ops += [('getitem', i, 0) for i in (-1, 0, 1, 2)] + [('peek', i, 0) for i in (0, 1, 2)]
        ops += [('contains', 0, 1), ('count', 0, 1), ('index', 0, 2), ('iter', 0, 0), ('prettyPrint', 0, 0), ('eq', 0, 0),
                ('encode', 0, 0), ('clone', 0, 0), ('cloneschema', 0, 0)]
        ops += [('getslice', 0, 2), ('getslice', -2, 99), ('setslice1', 0, 1), ('setslice2', 0, 1), ('setslice0', 0, 1),
                ('setslice2', 1, 3), ('setslice1', 5, 99), ('setslice2', -1, 99),
                ('setslicebad', 0, 2), ('setslicebad', 1, 3), ('setslicebad', 0, 1)]
        return ops
    if kind == 'ch':
        ops = [('set', i, 1) for i in (0, 1, 2, 3)] + [('setitem', 1, 2), ('setbyname', 0, 2), ('setbyname', 3, 2),
                                                       ('setbytype', 2, 1), ('setbytype', 3, 1), ('setbad', 1, 0),
                                                       ('setbadobj', 0, 0)]
        ops += [('getitem', i, 0) for i in (0, 1, 3)] + [('peek', i, 0) for i in (0, 1)] + [('getbyname', 2, 0), ('getbyname', 3, 0)]
        ops += [('getName', 0, 0), ('getComponent', 0, 0), ('len', 0, 0), ('contains', 0, 0), ('contains', 1, 0), ('iter', 0, 0),
                ('clear', 0, 0), ('prettyPrint', 0, 0), ('eq', 0, 0), ('encode', 0, 0), ('clone', 0, 0), ('cloneschema', 0, 0)]
        return ops
    ops = [('set', i, 1) for i in (0, 1, 2, 3)] + [('setitem', 1, 2), ('setbyname', 0, 2), ('setbyname', 2, 2), ('setbyname', 3, 2),
                                                   ('setbad', 0, 0), ('setbadobj', 1, 0)]
    ops += [('getitem', i, 0) for i in (0, 1, 2, 3)] + [('getbyname', 1, 0), ('getbyname', 3, 0)]
    ops += [('peek', i, 0) for i in (0, 1, 2)] + [('peekbyname', 1, 0), ('peekbyname', 3, 0)]
    ops += [('len', 0, 0), ('contains', 0, 0), ('contains', 3, 0), ('iter', 0, 0), ('keys', 0, 0), ('clear', 0, 0), ('reset', 0, 0),
            ('prettyPrint', 0, 0), ('eq', 0, 0), ('encode', 0, 0), ('clone', 0, 0), ('cloneschema', 0, 0)]
    if kind == 'st':
        ops += [('setbytype', i, 3) for i in (0, 1, 2, 3)] + [('getbytype', i, 0) for i in (0, 1, 2, 3)]
        ops += [('peekbytype', i, 0) for i in (0, 1, 2, 3)]
    return ops


def scalar_part(ctx):
    """valueless (schema) scalars: arithmetic, conversion and comparison must fail with the library's error"""
    from pyasn1.type import char, useful
    probes = []
    for cls in (univ.Integer, univ.Boolean, univ.BitString, univ.OctetString, univ.Null, univ.ObjectIdentifier, univ.Real,
                univ.Enumerated, char.UTF8String, char.IA5String, char.BMPString, useful.GeneralizedTime, univ.Any):
        s = cls()
        ops = {'int': lambda: int(s), 'str': lambda: str(s), 'bytes': lambda: bytes(s), 'float': lambda: float(s),
               'add': lambda: s + 1, 'radd': lambda: 1 + s, 'mul': lambda: s * 2, 'neg': lambda: -s, 'eq': lambda: s == 1,
               'lt': lambda: s < 1, 'len': lambda: len(s), 'hash': lambda: hash(s), 'bool': lambda: bool(s),
               'getitem': lambda: s[0], 'iter': lambda: list(s), 'contains': lambda: 1 in s, 'index': lambda: [0][s],
               'abs': lambda: abs(s), 'and': lambda: s & 1, 'lshift': lambda: s << 1, 'pow': lambda: s ** 2,
               'floordiv': lambda: s // 1, 'mod': lambda: s % 2, 'asOctets': lambda: s.asOctets(),
               'asNumbers': lambda: s.asNumbers(), 'asTuple': lambda: s.asTuple(), 'prettyPrintValue': lambda: s.prettyPrint() and None}
        for name, fn in ops.items():
            try:
                r = fn()
                if name == 'prettyPrintValue' or r is base.noValue:
                    continue          # the library's own "no value" marker is not data
                probes.append((cls.__name__, name, 'returned', type(r).__name__))
            except error.PyAsn1Error:
                probes.append((cls.__name__, name, 'pyasn1', ''))
            except (TypeError, AttributeError) as e:
                # the operation does not exist for this type at all (not "data returned")
                probes.append((cls.__name__, name, 'unsupported', type(e).__name__))
            except Exception as e:
                probes.append((cls.__name__, name, 'foreign', type(e).__name__))
    return probes


def run(ctx):
    rnd = random.Random(ctx.seed)
    with tlc.Scratch('c19') as sc:
        jobs = []
        for kind in ('so', 'ch', 'sq', 'st'):
            ops = alphabet(kind)
            L = 3
            hs = list(itertools.product(ops, repeat=L))
            if not ctx.quick:
                hs += [tuple(rnd.choice(ops) for _ in range(rnd.randint(4, 8))) for _ in range(30000)]
            elif kind != 'so':
                hs += [tuple(rnd.choice(ops) for _ in range(5)) for _ in range(4000)]
            jobs += [(kind, h) for h in hs]
        results = core.pmap(run_history, jobs, chunksize=256)
        traces = []
        for n, ((kind, h), ev) in enumerate(zip(jobs, results)):
            traces.append({'id': n + 1, 'kind': kind, 'ev': ev})
        st = []
        for t in traces:
            if len(st) < 3 and t['ev'][0]['res'] == 'ok' and t['ev'][0]['o'] in ('append', 'set') and t['ev'][0]['isv']:
                c = json.loads(json.dumps(t))
                c['ev'] = c['ev'][:1]
                if len(st) == 0:
                    c['ev'][0]['len'] += 1
                elif len(st) == 1:
                    c['ev'][0]['der'] = c['ev'][0]['der'] + [0]
                else:
                    c['ev'][0]['isv'] = False
                c['id'] = 10 ** 8 + len(st)
                st.append(c)
        try:
            printed = tlc.run_traces(ctx, sc, 'Trace_Container', traces + st, 'container histories', nev=lambda t: len(t['ev']),
                                     max_events=150000, invariants=['ChoiceOk'], heap='16g')
        except tlc.AcceptorFailure as e:
            raise core.Machinery('container acceptor failed: %s' % e)

        class _R:          # noqa
            pass
        r = _R()
        r.printed = printed
        rej = [p for p in r.printed if isinstance(p, list) and len(p) == 4 and p[0] == 'REJECT']
        if {p[1] for p in rej if p[1] >= 10 ** 8} != {t['id'] for t in st}:
            raise core.Machinery('container acceptor self-test failed')
        ctx.extra['acceptor_selftest'] = '3 corrupted observations (len, der, isValue), all rejected'
        seen_sig = set()
        bad = set()
        for q in r.printed:
            if isinstance(q, list) and len(q) == 4 and q[0] == 'DEV' and q[1] < 10 ** 8:
                t = traces[q[1] - 1]
                e = t['ev'][q[2] - 1]
                ops = [(x['o'], x['i'], x['v']) for x in t['ev'][:q[2]]]
                ctx.report('deviation %s: %s after %s' % (sorted(q[3]), t['kind'], ops),
                           {'clause': 'ReadChangedObject', 'container': t['kind'], 'op': e['o'], 'devs': sorted(q[3])},
                           {'prop': 'C19', 'container': t['kind'], 'ops': ops, 'clause': 'deviation', 'devs': sorted(q[3])})
        for _, tid, j, clause in rej:
            if tid >= 10 ** 8:
                continue
            t = traces[tid - 1]
            e = t['ev'][j - 1]
            prev = t['ev'][j - 2] if j > 1 else None
            f = {'clause': clause, 'container': t['kind'], 'op': e['o'], 'i': e['i'], 'res': e['res'], 'exc': e['exc'],
                 'prev_isv': prev['isv'] if prev else False, 'prev_len': prev['len'] if prev else 0,
                 'was_schema': (prev is None) or (not prev['isv'] and prev['len'] == 0 and t['kind'] not in ('sq', 'st')),
                 'in_range': (0 <= (e['i'] if e['i'] >= 0 else (prev['len'] if prev else 0) + e['i']) <= (prev['len'] if prev else 0))
                 if t['kind'] == 'so' else 0 <= e['i'] < 3}
            ops = [(x['o'], x['i'], x['v']) for x in t['ev'][:j]]
            bad.add(tid)
            sig = (clause, t['kind'], e['o'], e['res'], e['exc'], f['in_range'], f['was_schema'])
            if sig in seen_sig and core.match_finding(ctx.findings, f) is None and len(seen_sig) > 60:
                continue
            seen_sig.add(sig)
            ctx.report('%s: %s after %s -> %s %s; object now isValue=%s len=%s content=%s' % (
                clause, t['kind'], ops, e['res'], e['exc'], e['isv'], e['len'], e['el']), f,
                {'prop': 'C19', 'container': t['kind'], 'ops': ops, 'clause': clause, 'event': e})
        # valueless scalars
        probes = scalar_part(ctx)
        for cls, name, res, extra in probes:
            ctx.evaluations += 1
            ctx.keys.add(('schema-scalar', cls, name))
            if res in ('returned', 'foreign'):
                ctx.report('valueless %s: %s %s %s' % (cls, name, res, extra),
                           {'clause': 'SchemaScalar', 'cls': cls, 'op': name, 'res': res, 'exc': extra},
                           {'prop': 'C19', 'schema_scalar': cls, 'op': name, 'outcome': res, 'detail': extra})
        ctx.traces += len(traces) - len(bad)
        ctx.evaluations += sum(len(t['ev']) for t in traces)
        for (kind, h) in jobs:
            ctx.keys.add((kind,) + tuple(o for o, _, _ in h))
        for t in (traces[1234], traces[-5]):
            ctx.sample({'container': t['kind'], 'events': [{k: e[k] for k in ('o', 'i', 'v', 'res', 'ret', 'isv', 'len', 'el')} for e in t['ev']]})
    ctx.rule = ('all operation sequences of length 3 over the public API alphabet of SEQUENCE OF (50 ops incl. slice assignments with an ill-formed second member, reversed and keyed stable sorts, slice reads and slice '
                'assignments), CHOICE (28), SEQUENCE (31) and SET (43, incl. tag-addressed set/get/peek) + random longer ones; after every call the object is projected (isValue, len, members, DER) '
                'and compared with the list/dict/at-most-one machines of spec/Container.tla by spec/Trace_Container.tla; '
                'plus arithmetic/conversion/comparison probes on valueless scalars of 13 types')
    ctx.exhaustive = True
