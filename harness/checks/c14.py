"""C14 - constraints mean what set theory says and cannot be bypassed."""
import json
import os

from pyasn1 import error
from pyasn1.codec.der import decoder as der_dec, encoder as der_enc
from pyasn1.type import constraint, namedtype, univ

from .. import core, tlc, tlaval, codec_run as R
from . import compcons


def build(c):
    op = c['op']
    if op == 'single':
        return constraint.SingleValueConstraint(*[bytes(v) if isinstance(v, list) else v for v in c['vals']])
    if op == 'range':
        return constraint.ValueRangeConstraint(c['lo'], c['hi'])
    if op == 'size':
        return constraint.ValueSizeConstraint(c['lo'], c['hi'])
    if op == 'alphabet':
        return constraint.PermittedAlphabetConstraint(*c['chars'])       # an OCTET STRING value iterates as integers
    if op == 'and':
        return constraint.ConstraintsIntersection(build(c['a']), build(c['b']))
    if op == 'or':
        return constraint.ConstraintsUnion(build(c['a']), build(c['b']))
    if op == 'not':
        return constraint.ConstraintsExclusion(build(c['a']))
    raise ValueError(op)


def ops_in(c, acc=None):
    acc = acc if acc is not None else set()
    acc.add(c['op'])
    for k in ('a', 'b'):
        if k in c:
            ops_in(c[k], acc)
    return acc


def outcome(fn):
    """('ok', value) | ('vce', None) | ('pyasn1', None) | ('crash', name)"""
    st, r = R.guarded(fn, seconds=5)
    if st == 'ok':
        return 'ok', r
    if type(r).__name__ == 'ValueConstraintError':      # pyasn1.error's and pyasn1.type.error's are distinct classes
        return 'vce', None
    if isinstance(r, error.PyAsn1Error):
        return 'pyasn1', None
    return 'crash', type(r).__name__


def pyval(dom, x):
    if dom == 'int':
        return x
    if dom == 'bit':
        return tuple(x)
    return bytes(x)


def base(dom):
    return univ.Integer() if dom == 'int' else univ.BitString() if dom == 'bit' else univ.OctetString()


_TYPES = {}


def type_for(dom, c):
    """schema objects are long-lived in real programs: one object per (domain, constraint) and process"""
    key = (dom, json.dumps(c, sort_keys=True))
    if key not in _TYPES:
        _TYPES[key] = base(dom).subtype(subtypeSpec=build(c))
    return _TYPES[key]


def unval(dom, r):
    if dom == 'int':
        return int(r)
    if dom == 'bit':
        return tuple(int(b) for b in r.asBinary()) if len(r) else ()
    return bytes(r)


ARITH = {'add': lambda a, b: a + b, 'sub': lambda a, b: a - b, 'mul': lambda a, b: a * b, 'floordiv': lambda a, b: a // b,
         'mod': lambda a, b: a % b, 'neg': lambda a, b: -a, 'abs': lambda a, b: abs(a), 'lshift1': lambda a, b: a << 1,
         'rshift1': lambda a, b: a >> 1, 'pow2': lambda a, b: a ** 2,
         'concat': lambda a, b: a + b, 'rconcat': lambda a, b: b + a, 'slice01': lambda a, b: a[0:1], 'slice1': lambda a, b: a[1:],
         'rep2': lambda a, b: a * 2}


def sibling_constraints(dom, c, x):
    """constraint trees built from the same operands as c but denoting something else, plus c widened by {x}"""
    out = [('the union of the target constraint and {this value}', {'op': 'or', 'a': c, 'b': {'op': 'single', 'vals': [x]}})]
    if dom == 'int':
        if c['op'] == 'single' and len(c['vals']) >= 2:
            out.append(('the range between the same numbers', {'op': 'range', 'lo': min(c['vals']), 'hi': max(c['vals'])}))
        if c['op'] == 'range':
            out.append(('the two end points as single values', {'op': 'single', 'vals': [c['lo'], c['hi']]}))
    if c['op'] == 'not':
        out.append(('the excluded constraint itself', c['a']))
    if c['op'] == 'and':
        out.append(('the union of the same operands', {'op': 'or', 'a': c['a'], 'b': c['b']}))
    return out


def replay(s):
    """one model state -> list of (clause, detail) divergences"""
    out = []
    dom, c, x, ok = s['dom'], s['c'], s['x'], s['ok']
    v = pyval(dom, x)
    if s['ph'] == 'check':
        cons = build(c)
        st, _ = outcome(lambda: cons(v))
        if (st == 'ok') != ok or st in ('crash', 'pyasn1'):
            out.append(('Denotation', 'constraint(%r) -> %s, model says %s' % (v, st, 'admitted' if ok else 'rejected')))
        T = type_for(dom, c)
        st, obj = outcome(lambda: T.clone(v))
        if (st == 'ok') != ok or st == 'crash':
            out.append(('Construction', 'T.clone(%r) -> %s, model says %s' % (v, st, 'admitted' if ok else 'rejected')))
        st, obj = outcome(lambda: T.subtype(value=v))
        if (st == 'ok') != ok or st == 'crash':
            out.append(('Construction', 'T.subtype(value=%r) -> %s' % (v, st)))
        # construction from a VALUE OBJECT of a sibling type whose constraints look alike without being narrower: a value
        # the sibling admits must still pass the target's own constraints
        for what, cj in sibling_constraints(dom, c, x):
            try:
                S = base(dom).subtype(subtypeSpec=build(cj))
                src = S.clone(v)
            except Exception:
                continue                                  # the sibling does not admit v: nothing to pass on
            for how, fn in (('clone', lambda: T.clone(src)), ('subtype', lambda: T.subtype(value=src))):
                st, obj = outcome(fn)
                if (st == 'ok') != ok or st == 'crash':
                    out.append(('Construction', 'T.%s(<value %r of a sibling type with %s>) -> %s, model says %s' % (
                        how, v, what, st, 'admitted' if ok else 'rejected')))
        wire = der_enc.encode(base(dom).clone(v))
        st, r = outcome(lambda: der_dec.decode(wire, asn1Spec=T))
        if (st == 'ok') != ok or st == 'crash':
            out.append(('DecodeBypass', 'decode(%s, asn1Spec=T) -> %s, model says %s' % (wire.hex(), st, 'admitted' if ok else 'rejected')))
        if dom == 'oct' and not (ops_in(c) - {'size', 'and', 'or', 'not'}):
            so = univ.SequenceOf(componentType=univ.Integer()).subtype(subtypeSpec=cons)
            for i in range(len(x)):
                so.append(i)
            if len(x) == 0:
                so.clear()
            st, r = outcome(lambda: der_enc.encode(so))
            if (st == 'ok') != ok or st == 'crash':
                out.append(('EncoderAccepts', 'encode(SequenceOf of %d items under the size constraint) -> %s, model says %s' % (
                    len(x), st, 'admitted' if ok else 'rejected')))
    elif s['ph'] == 'chain':
        c1, c2 = build(c), build(s['c2'])
        T1 = base(dom).subtype(subtypeSpec=c1)
        T2 = T1.subtype(subtypeSpec=c2)
        st, obj = outcome(lambda: T2.clone(v))
        if (st == 'ok') != ok or st == 'crash':
            out.append(('ChainAdmits', 'T0->c1->c2: T2.clone(%r) -> %s, model says %s' % (v, st, 'admitted' if ok else 'rejected')))
        st, r = outcome(lambda: T1.isSuperTypeOf(T2))
        if st != 'ok' or not r:
            out.append(('NotRecognisedAsSubtype', 'T1.isSuperTypeOf(T2) -> %s %r' % (st, r)))
        if ok and obj is not None:
            seq = univ.Sequence(componentType=namedtype.NamedTypes(namedtype.NamedType('f', T1)))
            st, r = outcome(lambda: seq.setComponentByName('f', obj))
            if st != 'ok':
                out.append(('SubtypeValueRefused', 'field typed T1 refuses a T2 value (%r): %s' % (v, st)))
        # the same derivation written the documented way: subtype(subtypeSpec=ConstraintsIntersection(...))
        T2b = T1.subtype(subtypeSpec=constraint.ConstraintsIntersection(c2))
        st, objb = outcome(lambda: T2b.clone(v))
        if (st == 'ok') != ok or st == 'crash':
            out.append(('ChainAdmits', 'T0->c1->Intersection(c2): T2.clone(%r) -> %s, model says %s' % (v, st, 'admitted' if ok else 'rejected')))
        st, r = outcome(lambda: T1.isSuperTypeOf(T2b))
        if st != 'ok' or not r:
            out.append(('NotRecognisedAsSubtype', 'T1.isSuperTypeOf(T1.subtype(subtypeSpec=ConstraintsIntersection(c2))) -> %s %r' % (st, r)))
        if ok and objb is not None:
            so = univ.SequenceOf(componentType=T1)
            st, r = outcome(lambda: so.append(objb))
            if st != 'ok':
                out.append(('SubtypeValueRefused', 'SEQUENCE OF T1 refuses a value of the derived type (%r): %s' % (v, st)))
        # a grandchild, derived the nested way, must not make the relation symmetric
        T3 = T2.subtype(subtypeSpec=constraint.ConstraintsIntersection(T2.subtypeSpec, c2))
        st, r = outcome(lambda: T1.isSuperTypeOf(T3))
        if st != 'ok' or not r:
            out.append(('NotRecognisedAsSubtype', 'T1.isSuperTypeOf(grandchild) -> %s %r' % (st, r)))
        st1, p = outcome(lambda: T1.clone(v))
        if st1 == 'ok' and not ok:
            # v is a value of the parent that the child's constraints reject
            st, r = outcome(lambda: T2.isSuperTypeOf(T1))
            if st != 'ok' or r:
                out.append(('ParentTakenForSubtype', 'T2.isSuperTypeOf(T1) -> %s %r although T1 admits %r and T2 does not' % (st, r, v)))
            seq2 = univ.Sequence(componentType=namedtype.NamedTypes(namedtype.NamedType('f', T2)))
            st, r = outcome(lambda: seq2.setComponentByName('f', p))
            if st == 'ok':
                st, r = outcome(lambda: der_enc.encode(seq2))
                if st == 'ok':
                    out.append(('ConstraintBypassed', 'field typed T2 took the T1 value %r which T2 rejects, and it was encoded' % (v,)))
    else:
        T = type_for(dom, c)
        a = T.clone(v)
        y = pyval(dom, s['y'])
        st, r = outcome(lambda: ARITH[s['opn']](a, y))
        if st == 'crash':
            out.append(('Crash', '%s(%r, %r) -> %s' % (s['opn'], v, y, r)))
        elif ok:
            want = pyval(dom, s['res'])
            got = unval(dom, r) if st == 'ok' else None
            if st != 'ok' or got != want:
                out.append(('OperationResult', '%s(%r, %r) -> %s %r, model says %r' % (s['opn'], v, y, st, got, want)))
        else:
            if st == 'ok':
                out.append(('ConstraintBypassed', '%s(%r, %r) returned %r which the type rejects' % (s['opn'], v, y, r)))
    return out



# ------------------------------------------------------------------------------------ BIT STRING algebra (spec/BitStr.tla)
def bitstr_replay(state):
    """one reachable state of the BitStr machine (start value + operation history + model observables) replayed into
    univ.BitString; returns (divergences, named deviation or None)"""
    from pyasn1.type import univ
    def mk(bits):
        return univ.BitString(binValue=''.join(map(str, bits)))
    out = []
    dev = 'RepeatLosesLeadingZeros' if state['lz'] else None
    try:
        b = mk(state['start'])
        for op in state['hist']:
            o = op['o']
            if o == 'concat':
                b = b + mk(op['x'])
            elif o == 'rconcat':
                b = mk(op['x']) + b if len(op['x']) % 2 else tuple(op['x']) + b      # both spellings of x + s
            elif o == 'repeat':
                b = b * op['n']
            elif o == 'shl':
                b = b << op['n']
            elif o == 'shr':
                b = b >> op['n']
            elif o == 'slice':
                b = b[op['i']:op['j']]
        want = state['obs']
        got_bits = [int(c) for c in b.asBinary()]
        if got_bits != want['bits']:
            out.append('asBinary %s, model %s' % (b.asBinary(), ''.join(map(str, want['bits']))))
        if len(b) != len(want['bits']):
            out.append('len %d, model %d' % (len(b), len(want['bits'])))
        if list(b) != want['bits']:
            out.append('iteration %s differs' % (list(b),))
        if list(b.asOctets()) != want['octets'] or list(b.asNumbers()) != want['octets']:
            out.append('asOctets %s, model %s' % (list(b.asOctets()), want['octets']))
        if not isinstance(b, univ.BitString) or not b.isValue:
            out.append('result is not a BIT STRING value object')
        if not (b == mk(want['bits'])) or (b != mk(want['bits'])):
            out.append('does not compare equal to a fresh object with the model bits')
        for other in ([], [0], [1], [0, 1]):
            lt = len(want['bits']) < len(other) or (len(want['bits']) == len(other) and want['bits'] < other)
            if (b < mk(other)) != lt:
                out.append('< %s is %s, model %s' % (other, b < mk(other), lt))
    except Exception as e:   # noqa
        out.append('crash %s: %s' % (type(e).__name__, e))
    return out, dev


def bitstr_part(ctx, sc):
    maxops = 2 if ctx.quick else 3
    with open(sc.file('MC_bits.tla'), 'w') as f:
        f.write('---- MODULE MC_bits ----\nEXTENDS BitStr\nVARIABLES obs, lib, lz\nMCInit == Init /\\ obs = Obs(bits) /\\ lib = bits /\\ lz = FALSE\n'
                "MCNext == Next /\\ lib' = ApplyLib(lib, hist'[Len(hist')]) /\\ lz' = (lib' # bits') "
                "/\\ obs' = Obs(lib')\n====\n")
    with open(sc.file('MC_bits.cfg'), 'w') as f:
        f.write('INIT MCInit\nNEXT MCNext\nCONSTANT MaxOps = %d\n' % maxops +
                ''.join('INVARIANT %s\n' % i for i in ('TypeOK', 'ConcatLength', 'RepeatLength', 'ShiftInverse', 'OctetsCoverBits',
                                                       'LessIsStrictOrder')) + 'CHECK_DEADLOCK FALSE\n')
    dump = sc.file('bits.dump')
    r = tlc.run(sc.file('MC_bits.tla'), sc.file('MC_bits.cfg'), sc, dump=dump, timeout=3000)
    ctx.add_tlc('BitStr machine (histories of <= %d operations)' % maxops, r)
    if not r.ok:
        raise core.Machinery('BitStr model run failed: %s %s\n%s' % (r.violated, r.errors[:2], r.out[-1500:]))
    states = list(tlaval.parse_dump(open(dump).read()))
    os.remove(dump)
    states.sort(key=lambda s: json.dumps(s, sort_keys=True))
    res = core.pmap(bitstr_replay, states, chunksize=512)
    devs = 0
    bad = 0
    for s, (divs, dev) in zip(states, res):
        ctx.evaluations += 1
        if dev:
            devs += 1          # judged against the model WITH the named deviation (ApplyLib), exactly
        if divs:
            bad += 1
            ctx.report('BIT STRING algebra: %s after %s: %s' % (s['start'], [tuple(sorted(o.items())) for o in s['hist']], '; '.join(divs[:3])),
                       {'clause': 'BitStringAlgebra', 'part': 'bitstr', 'ops': sorted({o['o'] for o in s['hist']})},
                       {'prop': 'C14', 'kind': 'bitstr', 'state': s, 'divergences': divs})
    ctx.traces += len(states) - bad
    ctx.keys.add(('bitstr', len(states)))
    flipped = json.loads(json.dumps(states[len(states) // 2]))
    flipped['obs']['bits'] = flipped['obs']['bits'] + [1]
    if not bitstr_replay(flipped)[0]:
        raise core.Machinery('bitstr replay self-test failed')
    ctx.extra['bitstr'] = ('%d histories of spec/BitStr.tla replayed into univ.BitString (asBinary, len, iteration, asOctets/asNumbers, '
                           '==, <); in %d of them the library value differs from the ideal one by the named deviation RepeatLosesLeadingZeros '
                           '(s * n drops leading zero bits; outside the listed properties): those are compared with ApplyLib, exactly' % (len(states), devs))
    ctx.sample({'bit string history': states[len(states) // 3]})


# ------------------------------------------------------------------------------------ OBJECT IDENTIFIER algebra (spec/Oid.tla)
def oid_replay(state):
    from pyasn1.type import univ
    out = []
    try:
        o = univ.ObjectIdentifier(tuple(state['start']))
        for op in state['hist']:
            if op['o'] == 'concat':
                o = o + tuple(op['x'])
            elif op['o'] == 'rconcat':
                o = tuple(op['x']) + o
            else:
                o = o[op['i']:op['j']]
        want = state['want']
        if not isinstance(o, univ.ObjectIdentifier):
            out.append('result is a %s' % type(o).__name__)
        elif list(o.asTuple()) != want['arcs'] or list(o) != want['arcs'] or len(o) != len(want['arcs']):
            out.append('arcs %s, model %s' % (list(o), want['arcs']))
        else:
            if str(o) != '.'.join(map(str, want['arcs'])) or o.prettyPrint() != str(o):
                out.append('text %r' % str(o))
            if o != univ.ObjectIdentifier(tuple(want['arcs'])) or o != tuple(want['arcs']):
                out.append('does not compare equal to a fresh object / a tuple with the model arcs')
            if want['arcs'] and univ.ObjectIdentifier('.'.join(map(str, want['arcs']))) != o:
                out.append('text form does not read back')
            s0 = univ.ObjectIdentifier(tuple(state['start']))
            if bool(s0.isPrefixOf(o)) != want['start_is_prefix'] or bool(o.isPrefixOf(s0)) != want['is_prefix_of_start']:
                out.append('isPrefixOf: %s/%s, model %s/%s' % (s0.isPrefixOf(o), o.isPrefixOf(s0), want['start_is_prefix'], want['is_prefix_of_start']))
            for x, (c, i) in zip((0, 6, 999), want['probe']):
                if (x in o) != c:
                    out.append('%d in -> %s, model %s' % (x, x in o, c))
                try:
                    gi = o.index(x)
                except ValueError:
                    gi = -1
                if gi != i:
                    out.append('index(%d) -> %s, model %s' % (x, gi, i))
    except Exception as e:   # noqa
        out.append('crash %s: %s' % (type(e).__name__, e))
    return out


def oid_part(ctx, sc):
    maxops = 2 if ctx.quick else 3
    with open(sc.file('MC_oid.tla'), 'w') as f:
        f.write("""---- MODULE MC_oid ----
EXTENDS Oid
VARIABLE want
WantOf(s, a) == [arcs |-> a, start_is_prefix |-> IsPrefix(s, a), is_prefix_of_start |-> IsPrefix(a, s),
                 probe |-> << <<Contains(a, 0), FirstIndex(a, 0)>>, <<Contains(a, 6), FirstIndex(a, 6)>>, <<Contains(a, 999), FirstIndex(a, 999)>> >>]
MCInit == Init /\\ want = WantOf(start, arcs)
MCNext == Next /\\ want' = WantOf(start', arcs')
====
""")
    with open(sc.file('MC_oid.cfg'), 'w') as f:
        f.write('INIT MCInit\nNEXT MCNext\nCONSTANT MaxOps = %d\nINVARIANT TypeOK\nINVARIANT PrefixReflexive\nCHECK_DEADLOCK FALSE\n' % maxops)
    dump = sc.file('oid.dump')
    r = tlc.run(sc.file('MC_oid.tla'), sc.file('MC_oid.cfg'), sc, dump=dump, timeout=3000)
    ctx.add_tlc('Oid machine (histories of <= %d operations)' % maxops, r)
    if not r.ok:
        raise core.Machinery('Oid model run failed: %s %s\n%s' % (r.violated, r.errors[:2], r.out[-1500:]))
    states = list(tlaval.parse_dump(open(dump).read()))
    os.remove(dump)
    states.sort(key=lambda s: json.dumps(s, sort_keys=True))
    res = core.pmap(oid_replay, states, chunksize=512)
    bad = 0
    for s, divs in zip(states, res):
        ctx.evaluations += 1
        if divs:
            bad += 1
            ctx.report('OBJECT IDENTIFIER algebra: %s after %s: %s' % (s['start'], [tuple(sorted(o.items())) for o in s['hist']], '; '.join(divs[:3])),
                       {'clause': 'OidAlgebra', 'part': 'oid', 'ops': sorted({o['o'] for o in s['hist']})},
                       {'prop': 'C14', 'kind': 'oid', 'state': s, 'divergences': divs})
    ctx.traces += len(states) - bad
    ctx.keys.add(('oid', len(states)))
    flipped = json.loads(json.dumps(states[len(states) // 2]))
    flipped['want']['arcs'] = flipped['want']['arcs'] + [1]
    if not oid_replay(flipped):
        raise core.Machinery('oid replay self-test failed')
    ctx.extra['oid'] = '%d histories of spec/Oid.tla replayed into univ.ObjectIdentifier (arcs, text, ==, isPrefixOf, in, index)' % len(states)


# ------------------------------------------------------------------------------------ character strings (spec/CharStr.tla)
CHAR_TYPES = {'ascii': ['NumericString', 'PrintableString', 'IA5String', 'VisibleString', 'ISO646String'],
              'latin1': ['TeletexString', 'T61String', 'VideotexString', 'GraphicString', 'GeneralString'],
              'utf8': ['UTF8String'], 'utf16': ['BMPString'], 'utf32': ['UniversalString']}


def char_replay(state):
    from pyasn1 import error
    from pyasn1.type import char
    from pyasn1.codec.der import decoder as der_dec, encoder as der_enc
    out = []
    text = ''.join(chr(c) for c in state['text'])
    want = state['want']
    for tn in CHAR_TYPES[state['enc']]:
        cls = getattr(char, tn)
        try:
            v = cls(text)
            try:
                o = list(v.asOctets())
                if not want['ok']:
                    out.append('%s(%r).asOctets() -> %s, model: not encodable' % (tn, text, bytes(o).hex()))
                elif o != want['o']:
                    out.append('%s(%r).asOctets() -> %s, model %s' % (tn, text, bytes(o).hex(), bytes(want['o']).hex()))
                elif list(v.asNumbers()) != o:
                    out.append('%s asNumbers differs from asOctets' % tn)
            except error.PyAsn1Error:
                if want['ok']:
                    out.append('%s(%r).asOctets() refused, model %s' % (tn, text, bytes(want['o']).hex()))
            if want['ok']:
                w = cls(bytes(want['o']))
                if str(w) != text or w != v or len(w) != len(text) or [ord(x) for x in w] != state['text']:
                    out.append('%s(octets) reads back %r, model %r' % (tn, str(w), text))
                # through the DER codec
                b = der_enc.encode(v)
                r, rest = der_dec.decode(b, asn1Spec=cls())
                if rest or str(r) != text or list(r.asOctets()) != want['o']:
                    out.append('%s DER round trip gives %r' % (tn, str(r)))
            # damaged octet strings: the model's strict decoder says which ones are texts
            for d in state['damaged']:
                try:
                    w = cls(bytes(d['o']))
                    got = [ord(x) for x in str(w)]
                    if not d['ok']:
                        out.append('%s(%s) accepted as %r, model: not a %s string' % (tn, bytes(d['o']).hex(), str(w), state['enc']))
                    elif got != d['cps']:
                        out.append('%s(%s) reads %s, model %s' % (tn, bytes(d['o']).hex(), got, d['cps']))
                except error.PyAsn1Error:
                    if d['ok']:
                        out.append('%s(%s) refused, model reads %s' % (tn, bytes(d['o']).hex(), d['cps']))
        except Exception as e:   # noqa
            out.append('%s crash %s: %s' % (tn, type(e).__name__, e))
    return out


def char_part(ctx, sc):
    maxlen = 2 if ctx.quick else 3
    with open(sc.file('MC_char.tla'), 'w') as f:
        f.write("""---- MODULE MC_char ----
EXTENDS CharStr
VARIABLES want, damaged
E == Encode(enc, text)
(* the encoding cut one octet short, with one octet dropped from the front, and with the last octet's top bit flipped *)
Damage(o) == IF Len(o) = 0 THEN <<>> ELSE
             << SubSeq(o, 1, Len(o) - 1), SubSeq(o, 2, Len(o)), [o EXCEPT ![Len(o)] = (o[Len(o)] + 128) % 256] >>
Judge(o) == LET d == Decode(enc, o) IN [o |-> o, ok |-> d.ok, cps |-> IF d.ok THEN d.cps ELSE <<>>]
MCInit == Init /\\ want = (IF E.ok THEN [ok |-> TRUE, o |-> E.o] ELSE [ok |-> FALSE, o |-> <<>>])
               /\\ damaged = (IF E.ok THEN [i \\in 1..Len(Damage(E.o)) |-> Judge(Damage(E.o)[i])] ELSE <<>>)
MCNext == UNCHANGED <<enc, text, want, damaged>>
====
""")
    with open(sc.file('MC_char.cfg'), 'w') as f:
        f.write('INIT MCInit\nNEXT MCNext\nCONSTANT MaxLen = %d\nINVARIANT RoundTrip\nINVARIANT EncodableIffInRange\nCHECK_DEADLOCK FALSE\n' % maxlen)
    dump = sc.file('char.dump')
    r = tlc.run(sc.file('MC_char.tla'), sc.file('MC_char.cfg'), sc, dump=dump, timeout=3000)
    ctx.add_tlc('CharStr machine (texts of <= %d code points x 5 encodings)' % maxlen, r)
    if not r.ok:
        raise core.Machinery('CharStr model run failed: %s %s\n%s' % (r.violated, r.errors[:2], r.out[-1500:]))
    states = list(tlaval.parse_dump(open(dump).read()))
    os.remove(dump)
    states.sort(key=lambda s: json.dumps(s, sort_keys=True))
    res = core.pmap(char_replay, states, chunksize=256)
    bad = 0
    for s, divs in zip(states, res):
        ctx.evaluations += 1
        if divs:
            bad += 1
            ctx.report('character strings (%s): text %s: %s' % (s['enc'], s['text'], '; '.join(divs[:3])),
                       {'clause': 'CharStr', 'part': 'char', 'enc': s['enc']},
                       {'prop': 'C14', 'kind': 'char', 'state': s, 'divergences': divs})
    ctx.traces += len(states) - bad
    ctx.keys.add(('char', len(states)))
    flipped = json.loads(json.dumps(next(s for s in states if s['want']['ok'] and s['want']['o'])))
    flipped['want']['o'][-1] ^= 1
    if not char_replay(flipped):
        raise core.Machinery('char replay self-test failed')
    ctx.extra['char'] = ('%d (text, encoding) states of spec/CharStr.tla replayed into the 13 restricted character string types '
                         '(text -> octets, octets -> text, DER round trip, damaged octets vs the strict decoders)' % len(states))


# ------------------------------------------------------------------------------------ named numbers / bits (spec/NamedVals.tla)
def named_replay(state):
    from pyasn1 import error
    from pyasn1.type import namedval, univ
    out = []
    want = state['want']
    pairs = [(p['name'], p['num']) for p in state['tab']]
    try:
        try:
            nv = namedval.NamedValues(*pairs)
            built = True
        except error.PyAsn1Error:
            built = False
        if built != want['valid']:
            out.append('NamedValues(%s) %s, model valid=%s' % (pairs, 'accepted' if built else 'refused', want['valid']))
        if built and want['valid']:
            if len(nv) != len(pairs) or list(nv.items()) != pairs:
                out.append('items %s' % (list(nv.items()),))
            for cls in (univ.Integer, univ.Enumerated):
                T = cls(namedValues=nv)
                for nm, exp in zip(('a', 'b', 'c'), want['byname']):
                    try:
                        got = int(T.clone(nm))
                    except error.PyAsn1Error:
                        got = -1
                    if got != exp:
                        out.append('%s(%r) -> %s, model %s' % (cls.__name__, nm, got, exp))
                for n, exp in zip((0, 1, 5, 7), want['bynum']):
                    v = T.clone(n) if cls is univ.Integer or exp else None
                    if v is None:
                        continue
                    shown = v.prettyPrint()
                    if shown != (exp or str(n)):
                        out.append('%s(%d).prettyPrint() -> %r, model %r' % (cls.__name__, n, shown, exp or str(n)))
                    if T.clone(n).clone().namedValues != nv or T.subtype().namedValues != nv:
                        out.append('clone/subtype lost the table')
            B = univ.BitString(namedValues=nv)
            for names, exp in zip((['a'], ['a', 'c'], ['c', 'b'], ['a', 'b', 'c']), want['bits']):
                try:
                    got = [int(x) for x in B.clone(', '.join(names))]
                except error.PyAsn1Error:
                    got = None
                if got != exp:
                    out.append('BitString(%r) -> %s, model %s' % (', '.join(names), got, exp))
            # adding a table: valid iff the union is one-to-one
            other = namedval.NamedValues(('c', 5))
            try:
                both = nv + other
                ok = True
            except error.PyAsn1Error:
                ok = False
            if ok != want['add_c5']:
                out.append('table + (c, 5) %s, model %s' % ('accepted' if ok else 'refused', want['add_c5']))
    except Exception as e:   # noqa
        out.append('crash %s: %s' % (type(e).__name__, e))
    return out


def named_part(ctx, sc):
    maxlen = 2 if ctx.quick else 3
    with open(sc.file('MC_named.tla'), 'w') as f:
        f.write("""---- MODULE MC_named ----
EXTENDS NamedVals
VARIABLE want
NoBits == <<9>>
W(t) == IF ~Valid(t) THEN [valid |-> FALSE, byname |-> <<>>, bynum |-> <<>>, bits |-> <<>>, add_c5 |-> FALSE]
        ELSE [valid |-> TRUE,
              byname |-> [k \\in 1..3 |-> LET nm == <<"a", "b", "c">>[k] IN IF Has(t, nm) THEN t[NumOf(t, nm)].num ELSE 0 - 1 + 0],
              bynum |-> [k \\in 1..4 |-> LET n == <<0, 1, 5, 7>>[k] IN IF HasNum(t, n) THEN NameOfNum(t, n) ELSE ""],
              bits |-> [k \\in 1..4 |-> LET nms == << {"a"}, {"a", "c"}, {"c", "b"}, {"a", "b", "c"} >>[k]
                                        IN IF \\A nm \\in nms : Has(t, nm) THEN BitsOf(t, nms) ELSE NoBits],
              add_c5 |-> Valid(Append(t, [name |-> "c", num |-> 5]))]
MCInit == Init /\\ want = W(tab)
MCNext == UNCHANGED <<tab, want>>
====
""")
    with open(sc.file('MC_named.cfg'), 'w') as f:
        f.write('INIT MCInit\nNEXT MCNext\nCONSTANT MaxLen = %d\nINVARIANT ValidIsOneToOne\nINVARIANT LookupInverse\nCHECK_DEADLOCK FALSE\n' % maxlen)
    dump = sc.file('named.dump')
    r = tlc.run(sc.file('MC_named.tla'), sc.file('MC_named.cfg'), sc, dump=dump, timeout=3000)
    ctx.add_tlc('NamedVals machine (tables of <= %d pairs)' % maxlen, r)
    if not r.ok:
        raise core.Machinery('NamedVals model run failed: %s %s\n%s' % (r.violated, r.errors[:2], r.out[-1500:]))
    states = list(tlaval.parse_dump(open(dump).read()))
    os.remove(dump)
    for s in states:
        w = s['want']
        w['byname'] = [(-1 if x == -1 else x) for x in w['byname']]
        w['bits'] = [None if b == [9] else b for b in w['bits']]
    states.sort(key=lambda s: json.dumps(s, sort_keys=True))
    res = core.pmap(named_replay, states, chunksize=256)
    bad = 0
    for s, divs in zip(states, res):
        ctx.evaluations += 1
        if divs:
            bad += 1
            ctx.report('named values %s: %s' % ([(p['name'], p['num']) for p in s['tab']], '; '.join(divs[:3])),
                       {'clause': 'NamedValues', 'part': 'named'}, {'prop': 'C14', 'kind': 'named', 'state': s, 'divergences': divs})
    ctx.traces += len(states) - bad
    ctx.keys.add(('named', len(states)))
    flipped = json.loads(json.dumps(next(s for s in states if s['want']['valid'] and len(s['tab']) == 2)))
    flipped['want']['byname'] = [x + 1 for x in flipped['want']['byname']]
    if not named_replay(flipped):
        raise core.Machinery('named replay self-test failed')
    ctx.extra['named'] = ('%d name/number tables of spec/NamedVals.tla replayed into NamedValues and the INTEGER / ENUMERATED / BIT STRING '
                          'constructors that take names' % len(states))


# ------------------------------------------------------------------------------------ REAL triples (spec/RealObj.tla)
def real_replay(state):
    from pyasn1 import error
    from pyasn1.type import univ
    out = []
    m, b, e, want = state['m'], state['b'], state['e'], state['want']
    try:
        try:
            r = univ.Real((m, b, e))
            got = ['ok'] + [int(x) for x in tuple(r)]
        except error.PyAsn1Error:
            r, got = None, ['refused']
        if got != want:
            out.append('Real((%d, %d, %d)) -> %s, model %s' % (m, b, e, got, want))
        if r is not None and want[0] == 'ok':
            if r != univ.Real((want[1], want[2], want[3])) or not (r == r.clone()):
                out.append('does not compare equal to its normal form')
            if b == 10 and e >= 0 and (float(r) != float(m * 10 ** e) or int(r) != m * 10 ** e):
                out.append('float/int %r/%r, model %d' % (float(r), int(r), m * 10 ** e))
            if b == 2 and e >= 0 and float(r) != float(m * 2 ** e):
                out.append('float %r, model %d' % (float(r), m * 2 ** e))
    except Exception as ex:   # noqa
        out.append('crash %s: %s' % (type(ex).__name__, ex))
    return out


def real_part(ctx, sc):
    with open(sc.file('MC_real.tla'), 'w') as f:
        f.write("---- MODULE MC_real ----\nEXTENDS RealObj\nVARIABLE want\nMCInit == Init /\\ want = Norm(m, b, e)\n"
                "MCNext == UNCHANGED <<m, b, e, want>>\n====\n")
    with open(sc.file('MC_real.cfg'), 'w') as f:
        f.write('INIT MCInit\nNEXT MCNext\nINVARIANT NormKeepsTheValue\nINVARIANT NormHasNoTrailingZero\nCHECK_DEADLOCK FALSE\n')
    dump = sc.file('real.dump')
    r = tlc.run(sc.file('MC_real.tla'), sc.file('MC_real.cfg'), sc, dump=dump, timeout=1200)
    ctx.add_tlc('RealObj machine (mantissa x base x exponent grid)', r)
    if not r.ok:
        raise core.Machinery('RealObj model run failed: %s %s\n%s' % (r.violated, r.errors[:2], r.out[-1500:]))
    states = list(tlaval.parse_dump(open(dump).read()))
    os.remove(dump)
    states.sort(key=lambda s: json.dumps(s, sort_keys=True))
    bad = 0
    for s in states:
        ctx.evaluations += 1
        divs = real_replay(s)
        if divs:
            bad += 1
            ctx.report('REAL triple (%d, %d, %d): %s' % (s['m'], s['b'], s['e'], '; '.join(divs[:3])),
                       {'clause': 'RealObj', 'part': 'real'}, {'prop': 'C14', 'kind': 'real', 'state': s, 'divergences': divs})
    ctx.traces += len(states) - bad
    ctx.keys.add(('real', len(states)))
    flipped = dict(next(s for s in states if s['want'][0] == 'ok'))
    flipped['want'] = list(flipped['want'][:3]) + [flipped['want'][3] + 1]
    if not real_replay(flipped):
        raise core.Machinery('real replay self-test failed')
    ctx.extra['real'] = '%d (mantissa, base, exponent) triples of spec/RealObj.tla replayed into univ.Real (normal form, refusal of other bases, ==, float, int)' % len(states)


# ------------------------------------------------------------------------------------ INTEGER / OCTET STRING objects (spec/ScalarObj.tla)
INT_OPS = {'add': lambda a, x: a + x, 'radd': lambda a, x: x + a, 'sub': lambda a, x: a - x, 'rsub': lambda a, x: x - a,
           'mul': lambda a, x: a * x, 'floordiv': lambda a, x: a // x, 'mod': lambda a, x: a % x, 'and': lambda a, x: a & x,
           'or': lambda a, x: a | x, 'xor': lambda a, x: a ^ x, 'lshift': lambda a, x: a << x, 'rshift': lambda a, x: a >> x,
           'pow': lambda a, x: a ** x, 'neg': lambda a, x: -a, 'pos': lambda a, x: +a, 'abs': lambda a, x: abs(a),
           'invert': lambda a, x: ~a}


def scalar_replay(state):
    from pyasn1.type import univ
    out = []
    try:
        if state['kind'] == 'int':
            a = univ.Integer(state['start'])
            raised = False
            for op in state['hist']:
                try:
                    a = INT_OPS[op['o']](a, op['x'])
                except Exception:
                    raised = True
                    break
            if raised != (not state['okv']):
                out.append('raised=%s, model defined=%s' % (raised, state['okv']))
            elif state['okv']:
                if not isinstance(a, univ.Integer) or not a.isValue:
                    out.append('result is a %s, not an INTEGER value object' % type(a).__name__)
                elif int(a) != state['val'] or a != state['val'] or hash(a) != hash(state['val']):
                    out.append('result %r, model %d' % (int(a), state['val']))
        else:
            o = univ.OctetString(bytes(state['start']))
            for op in state['hist']:
                if op['o'] == 'concat':
                    o = o + bytes(op['x'])
                elif op['o'] == 'rconcat':
                    o = bytes(op['x']) + o
                elif op['o'] == 'repeat':
                    o = o * op['n']
                else:
                    o = o[op['i']:op['j']]
            if not isinstance(o, univ.OctetString) or not o.isValue:
                out.append('result is a %s, not an OCTET STRING value object' % type(o).__name__)
            elif list(o.asOctets()) != state['val'] or list(o.asNumbers()) != state['val'] or len(o) != len(state['val']) or \
                    o != bytes(state['val']) or list(o) != state['val']:
                out.append('result %s, model %s' % (bytes(o).hex(), bytes(state['val']).hex()))
    except Exception as e:   # noqa
        out.append('crash %s: %s' % (type(e).__name__, e))
    return out


def scalar_part(ctx, sc):
    maxops = 2 if ctx.quick else 3
    with open(sc.file('MC_scalar.cfg'), 'w') as f:
        f.write('SPECIFICATION Spec\nCONSTANT MaxOps = %d\nINVARIANT DivModLaw\nINVARIANT InvertIsXorMinusOne\nINVARIANT DeMorganBits\n'
                'INVARIANT RepeatLength\nCHECK_DEADLOCK FALSE\n' % maxops)
    dump = sc.file('scalar.dump')
    r = tlc.run(os.path.join(tlc.SPEC, 'ScalarObj.tla'), sc.file('MC_scalar.cfg'), sc, dump=dump, timeout=3000)
    ctx.add_tlc('ScalarObj machines: INTEGER and OCTET STRING operator histories of <= %d' % maxops, r)
    if not r.ok:
        raise core.Machinery('ScalarObj model run failed: %s %s\n%s' % (r.violated, r.errors[:2], r.out[-1500:]))
    states = list(tlaval.parse_dump(open(dump).read()))
    os.remove(dump)
    states.sort(key=lambda s: json.dumps(s, sort_keys=True))
    res = core.pmap(scalar_replay, states, chunksize=1024)
    bad = 0
    for s, divs in zip(states, res):
        ctx.evaluations += 1
        if divs:
            bad += 1
            ctx.report('%s object: %s after %s: %s' % (s['kind'], s['start'], [tuple(sorted(o.items())) for o in s['hist']], '; '.join(divs[:3])),
                       {'clause': 'ScalarObj', 'part': 'scalar', 'kind': s['kind'], 'ops': sorted({o['o'] for o in s['hist']})},
                       {'prop': 'C14', 'kind': 'scalar', 'state': s, 'divergences': divs})
    ctx.traces += len(states) - bad
    ctx.keys.add(('scalar', len(states)))
    flipped = json.loads(json.dumps(next(s for s in states if s['kind'] == 'int' and s['okv'] and s['hist'])))
    flipped['val'] += 1
    if not scalar_replay(flipped):
        raise core.Machinery('scalar replay self-test failed')
    ctx.extra['scalar'] = '%d operator histories of spec/ScalarObj.tla replayed into univ.Integer (17 operators) and univ.OctetString (+, *, slices)' % len(states)

def run(ctx):
    with tlc.Scratch('c14') as sc:
        depth = 1 if ctx.quick else 2
        with open(sc.file('MC_cons.cfg'), 'w') as f:
            f.write('SPECIFICATION Spec\nCONSTANT Depth = %d\nINVARIANT DeMorgan\nINVARIANT SubtypeNarrows\nCHECK_DEADLOCK FALSE\n' % depth)
        dump = sc.file('cons.dump')
        r = tlc.run(os.path.join(tlc.SPEC, 'Constraint.tla'), sc.file('MC_cons.cfg'), sc, dump=dump, timeout=3000)
        ctx.add_tlc('constraint generator', r)
        if not r.ok:
            raise core.Machinery('constraint model run failed: %s %s\n%s' % (r.violated, r.errors[:2], r.out[-1500:]))
        states = list(tlaval.parse_dump(open(dump).read()))
        os.remove(dump)
        states.sort(key=lambda s: json.dumps(s, sort_keys=True))
        results = core.pmap(replay, states, chunksize=128)
        bad = 0
        for s, divs in zip(states, results):
            ctx.evaluations += 1
            ctx.keys.add((s['ph'], s['dom'], json.dumps(s['c'], sort_keys=True), s['opn']))
            for clause, detail in divs:
                f = {'clause': clause, 'ph': s['ph'], 'dom': s['dom'], 'root': s['c']['op'], 'op': s['opn'],
                     'ops': sorted(ops_in(s['c']))}
                ctx.report('%s: c=%s %s' % (clause, json.dumps(s['c']), detail), f,
                           {'prop': 'C14', 'state': s, 'clause': clause, 'detail': detail})
            bad += 1 if divs else 0
        ctx.traces += len(states) - bad
        for s in states[:2] + states[len(states) // 2:len(states) // 2 + 2]:
            ctx.sample(s)
        # the binding is demonstrated: a flipped model verdict must be noticed by the replay
        flipped = dict(states[0], ok=not states[0]['ok'])
        if not replay(flipped):
            raise core.Machinery('replay self-test failed: a flipped model verdict went unnoticed')
        ctx.extra['replay_selftest'] = 'flipped model verdict detected'
        bitstr_part(ctx, sc)
        oid_part(ctx, sc)
        char_part(ctx, sc)
        named_part(ctx, sc)
        real_part(ctx, sc)
        scalar_part(ctx, sc)
        compcons.part(ctx, sc, 'C14')
    ctx.rule = ('every state of the generator machine spec/Constraint.tla: (expression tree of depth <= %d over single value, range, '
                'size, alphabet, intersection, union, exclusion) x candidate values around every boundary; derivation chains '
                'T0 -> c1 -> c2; value-producing operations (+ - * // %% neg abs << >> ** ; concatenation, slicing, repetition; '
                'decode) on admitted operands; each state replayed into pyasn1 and compared with the model verdict; plus every history of '
                '<= 2 (quick) / 3 (thorough) BIT STRING operations of spec/BitStr.tla compared observable by observable; plus every case of '
                'spec/CompCons.tla (component presence / absence, SIZE of SEQUENCE OF / SET OF under and/or/not, derived types): '
                'constraint call, isInconsistent and the BER / CER / DER / native encoders refuse exactly the values outside the denotation') % depth
    ctx.exhaustive = True
