"""Constraints of constructed types (spec/CompCons.tla): WITH COMPONENTS (PRESENT / ABSENT) on SEQUENCE / SET and SIZE on
SEQUENCE OF / SET OF under intersection, union and exclusion.  One generator run, replayed for two properties:
C14 (the constraint call, isInconsistent and the five encoders agree with the denotation; derived types narrow) and
C10 (what a decoder guided by the constrained type returns satisfies the constraint and re-encodes)."""
import json
import os

from .. import core, tlc, tlaval, codec_run as R

NAMES = ('a', 'b', 'c')


def build(c):
    from pyasn1.type import constraint
    op = c['op']
    if op == 'with':
        return constraint.WithComponentsConstraint(*[
            (n, constraint.ComponentPresentConstraint() if m == 'P' else constraint.ComponentAbsentConstraint())
            for n, m in zip(NAMES, c['m']) if m != 'N'])
    if op == 'size':
        return constraint.ValueSizeConstraint(c['lo'], c['hi'])
    if op == 'and':
        return constraint.ConstraintsIntersection(build(c['a']), build(c['b']))
    if op == 'or':
        return constraint.ConstraintsUnion(build(c['a']), build(c['b']))
    if op == 'not':
        return constraint.ConstraintsExclusion(build(c['a']))
    raise ValueError(op)


def _outcome(fn):
    from pyasn1 import error
    st, r = R.guarded(fn, seconds=5, retry=True)      # every call here is repeatable: a timeout counts only if it repeats
    if st == 'ok':
        return 'ok', r
    if isinstance(r, error.PyAsn1Error):
        return 'refused', None
    return 'crash', type(r).__name__


def _fill(T, dom, x):
    o = T.clone()
    o.clear()
    if dom in ('seq', 'set'):
        for n, p, v in zip(NAMES, x, (1, b'x', True)):
            if p:
                o[n] = v
    else:
        for i in range(x):
            o.append(i)
    return o


def _shape(dom, v):
    if dom in ('seq', 'set'):
        got = [v.getComponentByName(n, default=None, instantiate=False) for n in NAMES]
        return [bool(g is not None and g.isValue) for g in got]
    return len(v)


def replay(s):
    """-> list of (property, clause, detail)"""
    from pyasn1.codec.ber import encoder as ber_enc, decoder as ber_dec
    from pyasn1.codec.cer import encoder as cer_enc, decoder as cer_dec
    from pyasn1.codec.der import encoder as der_enc, decoder as der_dec
    from pyasn1.codec.native import encoder as nat_enc
    from pyasn1.type import univ, namedtype
    out = []
    dom, c, x, ok, ok2 = s['dom'], s['c'], s['x'], s['ok'], s['ok2']
    try:
        if dom in ('seq', 'set'):
            nt = namedtype.NamedTypes(namedtype.OptionalNamedType('a', univ.Integer()),
                                      namedtype.OptionalNamedType('b', univ.OctetString()),
                                      namedtype.OptionalNamedType('c', univ.Boolean()))
            U = (univ.Sequence if dom == 'seq' else univ.Set)(componentType=nt)
            mapping = dict((n, v) for n, p, v in zip(NAMES, x, (univ.Integer(1), univ.OctetString(b'x'), univ.Boolean(True))) if p)
        else:
            U = (univ.SequenceOf if dom == 'seqof' else univ.SetOf)(componentType=univ.Integer())
            mapping = dict((i, univ.Integer(i)) for i in range(x))
        cons = build(c)
        # 1. the constraint expression called on the mapping the library hands to it
        st, _ = _outcome(lambda: cons(mapping))
        if st == 'crash' or (st == 'ok') != ok:
            out.append(('C14', 'ConstraintVerdict', 'constraint(%r) -> %s, model %s' % (sorted(mapping), st, ok)))
        for how in ('subtype', 'ctor'):
            T = U.subtype(subtypeSpec=cons) if how == 'subtype' else U.__class__(componentType=U.componentType, subtypeSpec=cons)
            o = _fill(T, dom, x)
            # 2. the value's own consistency check
            st, r = _outcome(lambda: bool(o.isInconsistent))
            if st != 'ok' or r != (not ok):
                out.append(('C14', 'IsInconsistent', '%s: isInconsistent -> %s %r, model admitted=%s' % (how, st, r, ok)))
            # 3. every encoder refuses exactly the values outside the denotation
            encs = (('ber', lambda: ber_enc.encode(o)), ('ber-indef', lambda: ber_enc.encode(o, defMode=False)),
                    ('cer', lambda: cer_enc.encode(o)), ('der', lambda: der_enc.encode(o)), ('native', lambda: nat_enc.encode(o)))
            for nm, fn in encs:
                st, r = _outcome(fn)
                if st == 'crash' or (st == 'ok') != ok:
                    out.append(('C14', 'EncoderAccepts' if st == 'ok' else 'EncoderRefuses' if st == 'refused' else 'EncoderCrash',
                                '%s: %s encode of value %r -> %s, model admitted=%s' % (how, nm, x, st, ok)))
            # 4. decoders guided by T: the encodings of the unconstrained twin
            u = _fill(U, dom, x)
            for nm, raw, dec in (('ber', ber_enc.encode(u), ber_dec), ('ber-indef', ber_enc.encode(u, defMode=False), ber_dec),
                                 ('cer', cer_enc.encode(u), cer_dec), ('der', der_enc.encode(u), der_dec)):
                st, r = _outcome(lambda: dec.decode(raw, asn1Spec=T))
                if st == 'crash':
                    out.append(('C10', 'DecoderCrash', '%s: %s decode(%s) -> crash %s' % (how, nm, raw.hex(), r)))
                elif st == 'ok':
                    v, rest = r
                    if not ok:
                        out.append(('C10', 'DecodedValueViolatesConstraint', '%s: %s decode(%s, asn1Spec=T) returns a value of shape %r, '
                                    'outside the constraint' % (how, nm, raw.hex(), x)))
                    else:
                        if _shape(dom, v) != (list(x) if dom in ('seq', 'set') else x) or bytes(rest) != b'':
                            out.append(('C10', 'DecodedShapeDiffers', '%s: %s decode(%s) -> shape %r rest %r' % (how, nm, raw.hex(), _shape(dom, v), rest)))
                        st2, r2 = _outcome(lambda: der_enc.encode(v))
                        if st2 != 'ok' or r2 != der_enc.encode(u):
                            out.append(('C10', 'NotReencodable', '%s: %s decode(%s) result re-encodes -> %s' % (how, nm, raw.hex(), st2)))
                elif ok:          # a round-trip matter (C01/C02), stated by neither C14 nor C10: recorded, reported by neither
                    out.append(('-', 'DecoderRefusesAdmittedValue', '%s: %s decode(%s, asn1Spec=T) refused, model admits %r' % (how, nm, raw.hex(), x)))
        # 5. a type derived by adding a constraint admits the meet
        T1 = U.subtype(subtypeSpec=cons)
        T2 = T1.subtype(subtypeSpec=build(s['c2']))
        o2 = _fill(T2, dom, x)
        st, r = _outcome(lambda: bool(o2.isInconsistent))
        if st != 'ok' or r != (not ok2):
            out.append(('C14', 'DerivedIsInconsistent', 'T.subtype(c2): isInconsistent -> %s %r, model admitted=%s' % (st, r, ok2)))
        st, r = _outcome(lambda: der_enc.encode(o2))
        if st == 'crash' or (st == 'ok') != ok2:
            out.append(('C14', 'DerivedEncoderAccepts' if st == 'ok' else 'DerivedEncoderRefuses',
                        'T.subtype(c2): der encode -> %s, model admitted=%s' % (st, ok2)))
        st, r = _outcome(lambda: der_dec.decode(der_enc.encode(_fill(U, dom, x)), asn1Spec=T2))
        if st == 'crash' or (st == 'ok' and not ok2):
            out.append(('C10', 'DecodedValueViolatesConstraint', 'T.subtype(c2): der decode -> %s for shape %r outside the derived constraint' % (st, x)))
    except Exception as e:   # noqa
        out.append(('C14', 'HarnessCrash', '%s: %s' % (type(e).__name__, e)))
        out.append(('C10', 'HarnessCrash', '%s: %s' % (type(e).__name__, e)))
    return out


def part(ctx, sc, prop):
    depth, maxf = (1, 2) if ctx.quick else (2, 1)
    with open(sc.file('MC_compcons.cfg'), 'w') as f:
        f.write('SPECIFICATION Spec\nCONSTANT Depth = %d\nCONSTANT MaxFields = %d\nINVARIANT ExclusionIsComplement\nINVARIANT DeMorgan\n'
                'INVARIANT DerivedNarrows\nINVARIANT PresentAbsentExclusive\nINVARIANT AtomIsMeet\nCHECK_DEADLOCK FALSE\n' % (depth, maxf))
    dump = sc.file('compcons.dump')
    r = tlc.run(os.path.join(tlc.SPEC, 'CompCons.tla'), sc.file('MC_compcons.cfg'), sc, dump=dump, timeout=3000)
    ctx.add_tlc('CompCons generator (depth %d, <= %d members per WITH COMPONENTS)' % (depth, maxf), r)
    if not r.ok:
        raise core.Machinery('CompCons model run failed: %s %s\n%s' % (r.violated, r.errors[:2], r.out[-1500:]))
    states = list(tlaval.parse_dump(open(dump).read()))
    os.remove(dump)
    states.sort(key=lambda s: json.dumps(s, sort_keys=True))
    res = core.pmap(replay, states, chunksize=128)
    bad = 0
    for s, divs in zip(states, res):
        ctx.evaluations += 1
        mine = [d for d in divs if d[0] == prop]
        for _, clause, detail in mine[:4]:
            ctx.report('%s: %s c=%s %s' % (clause, s['dom'], json.dumps(s['c']), detail),
                       {'clause': clause, 'part': 'compcons', 'dom': s['dom'], 'root': s['c']['op']},
                       {'prop': prop, 'kind': 'compcons', 'state': s, 'clause': clause, 'detail': detail})
        bad += 1 if mine else 0
    ctx.traces += len(states) - bad
    ctx.keys.add(('compcons', len(states)))
    # binding self-test: a flipped model verdict must be noticed for both properties
    for want in ('C14', 'C10'):
        pick = next(s for s in states if s['dom'] == 'seq' and (s['ok'] if want == 'C10' else True))
        flipped = dict(pick, ok=not pick['ok'], ok2=False if want == 'C10' else pick['ok2'])
        if not [d for d in replay(flipped) if d[0] == want]:
            raise core.Machinery('CompCons replay self-test failed (%s): a flipped model verdict went unnoticed' % want)
    ctx.extra['compcons'] = ('%d cases of spec/CompCons.tla (WITH COMPONENTS PRESENT/ABSENT on SEQUENCE and SET, SIZE on SEQUENCE OF and SET OF, '
                             'under intersection / union / exclusion of depth <= %d, x every presence pattern / length 0..4, x a derived type) '
                             'replayed: constraint call, isInconsistent, 5 encoders, 4 decoders; flipped verdicts detected' % (len(states), depth))
