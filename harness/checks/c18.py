"""C18 - open types (ANY DEFINED BY) resolve by governing value and round-trip."""
import itertools
import json

from pyasn1.type import namedtype, opentype, tag, univ

from .. import core, tlc, codec_pipeline as P, codec_run as R
from .. import universe as U

INT = P.sc('int')
INNER = [
    (P.sc('int'), {'neg': False, 'mag': [5]}),
    (P.sc('octs'), {'o': [97, 98]}),
    (P.sc('null'), {'nul': 0}),
    (P.sc('utf8', [P.op('I', 2, 9)]), {'o': [120]}),
    ({'k': 'seqof', 'tags': [], 'of': P.sc('int')}, {'es': [U.int_term(1), U.int_term(2)]}),
    ({'k': 'seqof', 'tags': [], 'of': P.sc('int')}, {'es': []}),
    ({'k': 'seq', 'tags': [], 'comps': [{'name': 'p', 't': P.sc('int'), 'mode': 'req'},
                                        {'name': 'q', 't': P.sc('bool'), 'mode': 'opt'}]},
     {'cs': [{'p': True, 'v': U.int_term(-129)}, {'p': True, 'v': {'b': True}}]}),
    ({'k': 'choice', 'tags': [], 'alts': [{'name': 'x', 't': P.sc('int')}, {'name': 'y', 't': P.sc('octs')}]},
     {'alt': 2, 'v': {'o': [1, 2, 3]}}),
]
# thorough tier: further inner types (long-form lengths, nesting, tagged inner types, every scalar kind)
INNER_MORE = [
    (P.sc('octs'), {'o': [i % 256 for i in range(200)]}),
    (P.sc('octs'), {'o': []}),
    (P.sc('bool'), {'b': True}),
    (P.sc('bits'), {'bits': [1, 0, 1, 1, 0, 0, 0, 0, 1]}),
    (P.sc('oid'), {'arcs': [[1], [3], [6], [1], [4], [1]]}),
    (P.sc('int', [P.op('E', 2, 5)]), {'neg': True, 'mag': [1, 0]}),
    (P.sc('octs', [P.op('I', 1, 31)]), {'o': [1, 2, 3]}),
    ({'k': 'setof', 'tags': [], 'of': P.sc('octs')}, {'es': [{'o': [2]}, {'o': [1, 1]}, {'o': []}]}),
    ({'k': 'seqof', 'tags': [], 'of': {'k': 'seqof', 'tags': [], 'of': P.sc('int')}}, {'es': [{'es': [U.int_term(1)]}, {'es': []}]}),
    ({'k': 'seq', 'tags': [], 'comps': [{'name': 'p', 't': P.sc('int'), 'mode': 'req'},
                                        {'name': 'q', 't': P.sc('bool'), 'mode': 'opt'}]},
     {'cs': [{'p': True, 'v': U.int_term(0)}, {'p': False}]}),
    ({'k': 'set', 'tags': [], 'comps': [{'name': 'p', 't': P.sc('int', [P.op('I', 2, 1)]), 'mode': 'req'},
                                        {'name': 'q', 't': P.sc('octs', [P.op('I', 2, 0)]), 'mode': 'req'}]},
     {'cs': [{'p': True, 'v': U.int_term(7)}, {'p': True, 'v': {'o': [9]}}]}),
    ({'k': 'seq', 'tags': [P.op('E', 2, 4)], 'comps': [{'name': 'c', 't': {'k': 'choice', 'tags': [], 'alts': [
        {'name': 'x', 't': P.sc('int')}, {'name': 'y', 't': {'k': 'seqof', 'tags': [], 'of': P.sc('bool')}}]}, 'mode': 'req'}]},
     {'cs': [{'p': True, 'v': {'alt': 2, 'v': {'es': [{'b': True}, {'b': False}]}}}]}),
    ({'k': 'choice', 'tags': [P.op('E', 2, 6)], 'alts': [{'name': 'x', 't': P.sc('int')}, {'name': 'y', 't': P.sc('octs')}]},
     {'alt': 1, 'v': U.int_term(300)}),
]
INNER_QUICK = len(INNER)
INNER = INNER + INNER_MORE
TAGGINGS = {'untagged': [], 'implicit': [P.op('I', 2, 3)], 'explicit': [P.op('E', 2, 3)]}
CODECS = [('ber', True, 0), ('ber', False, 0), ('cer', True, 0), ('der', True, 0)]
CODECS_MORE = [('ber', True, 2), ('ber', False, 1)]        # thorough tier: segmented strings


def gov_value(gk, n):
    return n if gk == 'int' else (1, 3, 6, n)


def build(container, field, tagging, gk, inner_idx, override, mapped):
    Tin, vin = INNER[inner_idx]
    tin = U.build_type(Tin)
    g = gov_value(gk, inner_idx + 1)
    other = univ.Null() if Tin['k'] != 'null' else univ.Integer()
    default_map = {}
    override_map = None
    if mapped:
        if override == 'partial':
            default_map[g] = tin              # known to the default map only; the caller's map covers other values
            override_map = {gov_value(gk, 77): univ.Boolean()}
        elif override:
            default_map[g] = other            # the default map is wrong on purpose: the caller's map must win
            override_map = {g: tin}
        else:
            default_map[g] = tin
    default_map[gov_value(gk, 99)] = univ.Boolean()
    ot = opentype.OpenType('id', default_map)
    anyT = univ.Any()
    for o in TAGGINGS[tagging]:
        t = tag.Tag(U.CLASS_BITS[o['c']], tag.tagFormatSimple, U.unbig(o['n']))
        anyT = anyT.subtype(explicitTag=t) if o['m'] == 'E' else anyT.subtype(implicitTag=t)
    if field == 'any':
        fT = anyT
    elif field == 'seqof':
        fT = univ.SequenceOf(componentType=anyT)
    else:
        fT = univ.SetOf(componentType=anyT)
    govT = univ.Integer() if gk == 'int' else univ.ObjectIdentifier()
    cls = univ.Sequence if container == 'seq' else univ.Set
    outer = cls(componentType=namedtype.NamedTypes(namedtype.NamedType('id', govT), namedtype.NamedType('val', fT, openType=ot)))
    return outer, tin, g, override_map


def run_case(job):
    cid, container, field, tagging, gk, inner_idx, override, mapped = job[:8]
    codecs = CODECS + (CODECS_MORE if len(job) > 8 and job[8] else [])
    Tin, vin = INNER[inner_idx]
    vins = [vin] if field == 'any' else [vin, vin]
    ev = []
    for codec, dm, ch in codecs:
        for resolve in (True, False):
            outer, tin, g, omap = build(container, field, tagging, gk, inner_idx, override, mapped)
            e = {'op': 'open', 'codec': codec, 'def': dm, 'chunk': ch, 'Tin': Tin, 'vin': vins, 'resolved': bool(resolve and mapped),
                 'st': 'ok', 'fields': [], 'exc': '', 'wire': [], 'resolve': resolve}
            def go():
                val = outer.clone()
                val['id'] = g
                inner = U.build_value(Tin, vin, tin)
                if field == 'any':
                    val['val'] = inner
                else:
                    val['val'].extend([inner, U.build_value(Tin, vin, tin)])
                opts = {'defMode': dm, 'maxChunkSize': ch} if codec == 'ber' else {}
                wire = R.ENC[codec].encode(val, **opts)
                kw = {}
                if resolve:
                    kw['decodeOpenTypes'] = True
                    if omap is not None:
                        kw['openTypes'] = omap
                res, rest = R.DEC[codec].decode(wire, asn1Spec=outer, **kw)
                if rest:
                    raise ValueError('remainder %s' % bytes(rest).hex())
                return wire, res
            st, r = R.guarded(go, seconds=10)
            if st == 'ok':
                wire, res = r
                e['wire'] = list(wire)
                items = [res['val']] if field == 'any' else [res['val'][k] for k in range(len(res['val']))]
                for it in items:
                    if isinstance(it, univ.Any):
                        e['fields'].append({'typed': False, 'v': {'o': list(it.asOctets())}})
                    else:
                        try:
                            e['fields'].append({'typed': True, 'v': U.project(Tin, it)})
                        except Exception as ex:
                            e['fields'].append({'typed': False, 'v': {'o': []}})
                            e['exc'] = 'projection: %s' % ex
            else:
                e['st'] = R.classify(r) if not isinstance(r, ValueError) else 'error'
                e['exc'] = R.exc_name(r) + ': ' + str(r)[:60]
            ev.append(e)
    return {'id': cid, 'T': INT, 'v': U.int_term(0), 'ev': ev,
            'meta': dict(container=container, field=field, tagging=tagging, gov=gk, inner=P.shape_key(Tin), override=override, mapped=mapped)}


def run(ctx):
    jobs = []
    cid = 0
    for container, field, tagging, gk in itertools.product(('seq', 'set'), ('any', 'seqof', 'setof'),
                                                           ('untagged', 'implicit', 'explicit'), ('int', 'oid')):
        for inner_idx in range(INNER_QUICK if ctx.quick else len(INNER)):
            for override, mapped in ((False, True), (True, True), ('partial', True), (False, False)):
                if ctx.quick and gk == 'oid' and (container == 'set' or field == 'setof'):
                    continue
                if container == 'set' and tagging == 'untagged' and field == 'any':
                    continue      # not ASN.1: the members of a SET need distinct tags, an untagged ANY has none
                cid += 1
                jobs.append((cid, container, field, tagging, gk, inner_idx, override, mapped, not ctx.quick))
    traces = core.pmap(run_case, jobs, chunksize=8)
    with tlc.Scratch('c18') as sc:
        st = json.loads(json.dumps(traces[0]))
        st['id'] = 10 ** 8
        st['ev'] = [e for e in st['ev'] if e['st'] == 'ok' and e['fields']][:1]
        if not st['ev']:
            raise core.Machinery('no event for the acceptor self-test')
        st['ev'][0]['resolved'] = not st['ev'][0]['resolved']
        rejects = P.judge(ctx, sc, traces + [st], name='open')
        if not any(r[0] == 10 ** 8 for r in rejects):
            raise core.Machinery('acceptor self-test failed')
        ctx.extra['acceptor_selftest'] = 'flipped "resolved" expectation rejected'
        byid = {t['id']: t for t in traces}
        bad = set()
        for tid, idx, clause in rejects:
            if tid >= 10 ** 8:
                continue
            t = byid[tid]
            e = t['ev'][idx - 1]
            f = dict(t['meta'])
            f.update({'clause': clause, 'codec': e['codec'], 'def': e['def'], 'resolve': e['resolve'], 'st': e['st'],
                      'exc': e['exc'].split(':')[0], 'constructed_inner': INNER[[P.shape_key(x[0]) for x in INNER].index(t['meta']['inner'])][0]['k'] in ('seq', 'seqof', 'set', 'setof'),
                      'indefinite': (e['codec'] == 'cer') or (e['codec'] == 'ber' and not e['def'])})
            ctx.report('%s: %s, codec %s def=%s resolve=%s -> %s %s fields=%s' % (
                clause, t['meta'], e['codec'], e['def'], e['resolve'], e['st'], e['exc'], json.dumps(e['fields'])[:200]), f,
                {'prop': 'C18', 'meta': t['meta'], 'event': e, 'clause': clause})
            bad.add((tid, idx))
        n = sum(len(t['ev']) for t in traces)
        ctx.traces += n - len(bad)
        ctx.evaluations += n
        for t in traces:
            for e in t['ev']:
                ctx.keys.add(tuple(sorted(t['meta'].items())) + (e['codec'], e['def'], e['resolve']))
        ctx.sample({'case': traces[0]['meta'], 'event': {k: traces[0]['ev'][0][k] for k in ('codec', 'def', 'resolved', 'st', 'fields', 'wire')}})
    ctx.rule = ('containers {SEQUENCE, SET} x field {ANY, SEQUENCE OF ANY, SET OF ANY} x ANY tagging {untagged, implicit, explicit} x '
                'governor {INTEGER, OID} x 8 (quick) / 21 (thorough) inner types x {default map, caller override over a wrong default, caller map covering other values only, '
                'unmapped} x codecs {BER def, BER indef, CER, DER; thorough also BER with segmented strings} x resolution {on, off}; each encode+decode is one event judged '
                'by JudgeOpen in spec/Trace_Codec.tla (typed inner value = Norm under the mapped type; raw octets = the '
                'reference encoding of the inner value in the same codec and length mode)')
    ctx.exhaustive = True
