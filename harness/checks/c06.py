"""C06 - truncated input is reported as insufficient data at every cut point.
One-shot clause: codec_props.plan_c06; streaming clause: below."""
import random

from .. import core, tlc, codec_pipeline as P, stream_pipeline as SP
from . import codec_props

CLAUSES = {'Crash', 'SpuriousError', 'ObjectNotDelivered', 'EosNotRaised', 'NotStopped', 'UnderrunNotReported',
           'WrongObject', 'PollAfterEnd'}
GEN = dict(kinds=['int', 'octs', 'bits', 'bool', 'null', 'utf8', 'oid'], tagnums=[0, 31], classes=[2], maxstack=1,
           shapes=['scalar', 'seqof', 'choice', 'deep'], pool=1,
           modes=['der', 'cer', 'ber_indef', 'ber_indef_c1', 'v_indefdef', 'v_long'])


def run(ctx):
    codec_props.run_prop(ctx)
    max_len = 10 if ctx.quick else 12
    with tlc.Scratch('c06s') as sc:
        cases = P.generate(ctx, sc, GEN, name='MC_gen_streams', invariants=['TypeOK', 'ProperPrefixIsShort', 'OneTLV'])
        streams = SP.pick_streams(cases, max_len, 12 if ctx.quick else 24, ctx.seed, min_items=1, max_items=2)
        lay = set()
        for st in streams[:3]:
            for k in (1, len(st.data) - 1):
                comp = [e for e in st.ends if e <= k]
                lay.add((tuple(comp), k - (comp[-1] if comp else 0), True))
        SP.check_refinement(ctx, sc, sorted(lay)[:4])

        def jobs_of(st):
            for k in range(1, len(st.data)):
                if k in st.ends:
                    continue            # a clean end between items is not a truncation
                for kind, parts, cwl, idle in SP.schedules_for(st, ['K3', 'K4'], truncate_at=k):
                    if idle:
                        continue
                    yield kind, parts, cwl, idle, k
        traces, meta = SP.run_streams(ctx, streams, jobs_of)
        SP.finish_streams(ctx, sc, traces, meta, clauses=CLAUSES, name='strace_trunc')
        ctx.rule += ('; streaming clause: every cut point strictly inside an item x every arrival partition of the prefix x '
                     '{closed together with / after the last octet} x kinds {K3, K4}, judged by spec/Trace_Stream.tla '
                     '(underrun while open, end-of-stream error once closed)')
