"""C05 - streaming decoder output is independent of the data arrival schedule."""
import random

from .. import core, tlc, codec_pipeline as P, stream_pipeline as SP, streams as S

GEN = dict(kinds=['int', 'octs', 'bits', 'bool', 'null', 'utf8'], tagnums=[0, 31], classes=[2], maxstack=1,
           shapes=['scalar', 'seqof', 'choice', 'deep', 'any'], pool=1,
           modes=['der', 'cer', 'ber_indef', 'ber_indef_c1', 'v_indefdef', 'v_long'])

CLAUSES = {'Crash', 'SpuriousError', 'ObjectNotDelivered', 'EosNotRaised', 'NotStopped', 'UnderrunNotReported',
           'WrongObject', 'WrongPosition', 'PollAfterEnd'}


def big_streams(ctx, first_sid):
    from pyasn1.codec.ber import encoder as be
    from pyasn1.type import univ
    from .. import universe as U
    out = []
    ints = [list(be.encode(univ.Integer(i * 37 - 20000))) for i in range(3500 if ctx.quick else 9000)]
    out.append(SP.Stream(first_sid, P.sc('int'), ints, 'ber', True, 'int x %d (big)' % len(ints)))
    so = {'k': 'seqof', 'tags': [], 'of': P.sc('octs')}
    v = U.build_value(so, {'es': [{'o': [i % 251] * (i % 7)} for i in range(4000)]})
    out.append(SP.Stream(first_sid + 1, so, [list(be.encode(v, defMode=False)), list(be.encode(univ.SequenceOf(componentType=univ.OctetString()).clone().clear() or v, defMode=False))[:0] or list(be.encode(v, defMode=False))], 'ber', True, 'indefinite SEQUENCE OF OCTET STRING x 2 (big)'))
    return out


def run(ctx):
    rnd = random.Random(ctx.seed)
    max_len = 9 if ctx.quick else 12
    nstreams = 28 if ctx.quick else 40
    with tlc.Scratch('c05') as sc:
        cases = P.generate(ctx, sc, GEN, invariants=['TypeOK', 'AllFormsDecode', 'OneTLV'])
        streams = SP.pick_streams(cases, max_len, nstreams, ctx.seed, min_items=1, max_items=3)
        layouts = sorted({(tuple(st.ends), 0, True) for st in streams}, key=lambda l: (l[0][-1], l[0]))
        SP.check_refinement(ctx, sc, layouts[:4 if ctx.quick else 12])
        SP.check_ideal_liveness(ctx, sc, layouts[0][0], 0)

        def jobs_of(st):
            for kind, parts, cwl, idle in SP.schedules_for(st, ['K3', 'K4']):
                yield kind, parts, cwl, idle, len(st.data)
        traces, meta = SP.run_streams(ctx, streams, jobs_of)
        # streams much larger than the wrapper's read-ahead buffer, sampled bursts (not exhaustive)
        big = big_streams(ctx, first_sid=len(streams) + 1)

        def big_jobs(st):
            n = len(st.data)
            for kind in ('K3', 'K4'):
                for _ in range(2 if ctx.quick else 6):
                    parts, left = [], n
                    while left:
                        k = min(left, rnd.choice([1, 2, 5, 100, 1000, 3000, 8192, 8193]))
                        parts.append(k)
                        left -= k
                    yield kind, parts, rnd.random() < 0.5, 0, n
        t3, m3 = SP.run_streams(ctx, big, big_jobs)
        for t in t3:
            t['id'] += len(traces)
        traces += t3
        meta.update({k + len(traces) - len(t3): v for k, v in m3.items()})
        # untagged ANY holding values in indefinite-length form (the universe's ANY values are definite): hand-made streams,
        # complete data with None injected at every single read call and pairs of them
        h = bytes.fromhex
        anyseq = {'k': 'seq', 'tags': [], 'comps': [{'name': 'a', 't': P.sc('int'), 'mode': 'req'}, {'name': 'x', 't': P.sc('any'), 'mode': 'req'}]}
        handmade = [SP.Stream(len(streams) + len(big) + 1, P.sc('any'), [list(h('30800201010000')), list(h('24800401610401620000'))], 'ber', True,
                              'ANY holding indefinite-length values'),
                    SP.Stream(len(streams) + len(big) + 2, anyseq, [list(h('300a02010530800201010000')), list(h('30800201063080020101000000 00'.replace(' ', '')))],
                              'ber', True, 'SEQUENCE with an ANY member holding indefinite-length values')]
        t2, m2 = SP.run_k2_streams(ctx, streams + handmade, first_id=len(traces), limit=120 if ctx.quick else 400)
        traces += t2
        meta.update(m2)
        SP.finish_streams(ctx, sc, traces, meta, clauses=CLAUSES)
        ctx.extra['streams'] = [st.label + ' ' + st.data.hex() for st in streams]
        ctx.rule = ('every arrival partition (2^(|s|-1)) of each stream x {close with / after the last chunk} x {0,1 idle '
                    'poll} x kinds {K3 seekable growing raw, K4 non-seekable behind CachingStreamWrapper}, plus K2 (BytesIO subclass answering None at every single / pair / alternating read calls); one trace per '
                    'schedule, judged poll by poll by the ideal layer (spec/StreamIdeal.tla) in spec/Trace_Stream.tla; '
                    'distinct = (stream, kind, #chunks, close mode, idle) keys')
        ctx.exhaustive = True
