"""C11 - decoding result does not depend on the kind of input object; the seek-back wrapper behaves
like a seekable stream."""
import gzip
import io
import itertools
import json
import os
import random

from pyasn1.codec import streaming
from pyasn1.type import univ

from .. import core, tlc, tlaval, codec_pipeline as P, codec_run as R, stream_pipeline as SP
from .. import universe as U
from .. import streams as S

UNIT = 2048
SIZE_UNITS = 12
BUF_UNITS = io.DEFAULT_BUFFER_SIZE // UNIT        # 4 units = 8192 octets


class BlockingRaw(io.RawIOBase):
    """non-seekable blocking byte source"""

    def __init__(self, data):
        super().__init__()
        self._b = io.BytesIO(data)

    def readable(self):
        return True

    def seekable(self):
        return False

    def read(self, n=-1):
        return self._b.read(n)


def model_check(ctx, sc):
    with open(sc.file('MC_wrap.tla'), 'w') as f:
        f.write('---- MODULE MC_wrap ----\nEXTENDS CacheWrap\nMCReads == {1, 2, 5}\n====\n')
    with open(sc.file('MC_wrap.cfg'), 'w') as f:
        f.write('SPECIFICATION Spec\nCONSTANT Size = %d\nCONSTANT Buf = %d\nCONSTANT Reads <- MCReads\nINVARIANT IndInv\n'
                'INVARIANT CacheBounded\nPROPERTY RefinesSeekable\nCHECK_DEADLOCK FALSE\n' % (SIZE_UNITS, BUF_UNITS))
    r = tlc.run(sc.file('MC_wrap.tla'), sc.file('MC_wrap.cfg'), sc, workers=8, timeout=1200, coverage=True)
    ctx.require_actions(r, ['Read', 'Peek', 'SeekBack', 'SetMark'], 'CacheWrap')
    ctx.add_tlc('CacheWrap: bookkeeping invariant + refinement of a seekable stream', r)
    if not r.ok:
        raise core.Machinery('CacheWrap model run failed: %s %s\n%s' % (r.violated, r.errors[:2], r.out[-1500:]))


def apalache_inductive(ctx, sc):
    """unbounded sizes: IndInv of spec/CacheWrapInt.tla is inductive (Apalache, SMT)"""
    import subprocess
    import time
    spec = os.path.join(tlc.SPEC, 'CacheWrapInt.tla')
    for name, args in (('Init => IndInv', ['--init=Init', '--length=0']),
                       ('IndInv /\\ Next => IndInv\'', ['--init=IndInit', '--length=1'])):
        t0 = time.time()
        try:
            p = subprocess.run(['apalache-mc', 'check', '--cinit=ConstInit', '--inv=IndInv', '--out-dir=' + sc.file('apalache')] + args + [spec],
                               cwd=sc.path, stdout=subprocess.PIPE, stderr=subprocess.STDOUT, text=True, timeout=900)
            out = p.stdout
        except (OSError, subprocess.TimeoutExpired) as e:
            # a missing or starved solver is noted, not fatal: TLC checks the same invariant on the bounded model
            ctx.extra['apalache'] = 'not discharged in this run (%s on %s)' % (type(e).__name__, name)
            return
        if 'The outcome is: NoError' not in out:
            raise core.Machinery('apalache did not discharge %s:\n%s' % (name, out[-1500:]))
        ctx.tlc_runs.append({'run': 'apalache: ' + name + ' (CacheWrapInt, unbounded Size/Buf/read sizes)', 'wall_s': round(time.time() - t0, 1),
                             'outcome': 'NoError'})
    ctx.extra['apalache'] = 'IndInv of CacheWrapInt.tla is inductive for every stream size, buffer size and read size'


# --------------------------------------------------------------------------- wrapper histories
OPS = [(1, 1), (1, 2), (1, 5), (2, 1), (2, 5), (3, 1), (3, 2), (4, 0)]       # (op, n units)


# histories on a non-blocking raw stream: units arrive (op 5) between the operations; a read may come back short or as None
OPS_NB = [(5, 1), (5, 3), (1, 1), (1, 2), (1, 5), (2, 2), (3, 1), (4, 0)]


def run_history(hist):
    data = b''.join(bytes([i + 1]) * UNIT for i in range(SIZE_UNITS))
    nb = bool(hist) and hist[0] == 'nb'
    if nb:
        hist = hist[1:]
        raw = S.GrowingRaw(seekable=False)
        fed = 0
    else:
        raw = BlockingRaw(data)
    w = streaming.CachingStreamWrapper(raw)
    ev = []
    for op, n in hist:
        first, got = -1, 0
        if op == 5:
            k = min(n, SIZE_UNITS - fed)
            raw.feed(data[fed * UNIT:(fed + k) * UNIT])
            fed += k
            t = w.tell()
            ev += [5, k, -1, 0, t // UNIT if t % UNIT == 0 else -1]
            continue
        if op in (1, 2):
            if nb and op == 2 and w.tell() >= len(w._cache.getvalue()) and raw._pos >= len(raw._buf):
                continue                              # peek() with nothing pending is not defined for a non-blocking source (len(None))
            out = w.read(n * UNIT) if op == 1 else w.peek(n * UNIT)
            if out is None:
                out = b''
            got_octets = len(out)
            if got_octets % UNIT or any(out[i * UNIT:(i + 1) * UNIT] != bytes([out[i * UNIT]]) * UNIT
                                         for i in range(got_octets // UNIT)):
                first, got = -2, got_octets          # not whole units of one value each: corrupt
            else:
                got = got_octets // UNIT
                units = [out[i * UNIT] - 1 for i in range(got)]
                if units and units != list(range(units[0], units[0] + got)):
                    first = -3                        # units out of order
                elif units:
                    first = units[0]
        elif op == 3:
            t = w.tell()
            if t - n * UNIT < w.markedPosition or t - n * UNIT < 0:
                continue                              # the client contract forbids this seek: skip the operation
            w.seek(t - n * UNIT)
        else:
            w.markedPosition = w.tell()
        t = w.tell()
        ev += [op, n, first, got, t // UNIT if t % UNIT == 0 else -1]
    return ev


def wrapper_part(ctx, sc):
    L = 5 if ctx.quick else 6
    hists = list(itertools.product(OPS, repeat=L))
    if not ctx.quick:
        rnd = random.Random(ctx.seed)
        hists += [tuple(rnd.choice(OPS) for _ in range(12)) for _ in range(20000)]
    nblocking = len(hists)
    hists += [('nb',) + h for h in itertools.product(OPS_NB, repeat=L)]
    evs = core.pmap(run_history, hists, chunksize=256)
    path = sc.file('wrap.ndjson')
    n = 0
    seen = set()
    traces = []
    for k, (h, ev) in enumerate(zip(hists, evs)):
        key = (k >= nblocking,) + tuple(ev)
        if not ev or key in seen:
            continue
        seen.add(key)
        n += 1
        traces.append({'id': n, 'size': SIZE_UNITS, 'buf': BUF_UNITS, 'nb': 1 if k >= nblocking else 0, 'ev': ev})
    # acceptor self-test: corrupt one field
    st = []
    for t in traces[:400]:
        if len(t['ev']) >= 10 and len(st) < 3:
            c = json.loads(json.dumps(t))
            c['ev'][9] = c['ev'][9] + 1                     # tell after the 2nd operation
            c['id'] = 10 ** 8 + len(st)
            st.append(c)
    with open(path, 'w') as f:
        for t in traces + st:
            f.write(json.dumps(t, separators=(',', ':')) + '\n')
    tlc.write_cfg(sc.file('wrap.cfg'), spec='TraceSpec')
    r = tlc.run(os.path.join(tlc.SPEC, 'Trace_Wrap.tla'), sc.file('wrap.cfg'), sc, env={'TRACE_FILE': path}, timeout=3000)
    ctx.add_tlc('wrapper histories', r)
    if not r.ok:
        raise core.Machinery('wrapper acceptor failed: %s\n%s' % (r.errors[:3], r.out[-2000:]))
    nev = sum(len(t['ev']) // 5 for t in traces + st)
    if r.distinct != nev + len(traces) + len(st):
        raise core.Machinery('wrapper acceptor consumed %d states, expected %d' % (r.distinct, nev + len(traces) + len(st)))
    rej = [p for p in r.printed if isinstance(p, list) and len(p) == 4 and p[0] == 'REJECT']
    if {p[1] for p in rej if p[1] >= 10 ** 8} != {t['id'] for t in st}:
        raise core.Machinery('wrapper acceptor self-test failed')
    byid = {t['id']: t for t in traces}
    bad = set()
    for _, tid, j, clause in rej:
        if tid >= 10 ** 8:
            continue
        t = byid[tid]
        ops = [t['ev'][5 * i:5 * i + 5] for i in range(len(t['ev']) // 5)]
        ctx.report('wrapper history diverges from a seekable stream: %s at operation %d of %s' % (clause, j, ops),
                   {'clause': clause, 'part': 'wrapper', 'nops': len(ops)},
                   {'prop': 'C11', 'kind': 'wrapper', 'ops(op,n,first,got,tell)': ops, 'clause': clause, 'at': j})
        bad.add(tid)
    ctx.traces += len(traces) - len(bad)
    ctx.evaluations += nev
    for t in traces:
        ctx.keys.add(('wrap',) + tuple(t['ev'][0::5]))
    ctx.sample({'wrapper history (op,n,first,got,tell)*': traces[len(traces) // 2]['ev']})
    ctx.extra['wrapper_histories'] = len(traces)
    ctx.extra['wrapper_histories_nonblocking_raw'] = sum(t['nb'] for t in traces)


def _claims_huge(data):
    """some long-form length field in the input announces >= 2^31 octets"""
    for i, b in enumerate(data):
        k = b - 0x80
        if 4 <= k <= 8 and i + k < len(data) + 1 and int.from_bytes(data[i + 1:i + 1 + k], 'big') >= 2 ** 31:
            return True
    return False


# --------------------------------------------------------------------------- kinds
KINDS = ['bytes', 'BytesIO', 'OctetString', 'Any', 'file', 'gzip', 'BufferedReader', 'nonseekable', 'stream-bytes',
         'stream-nonseekable']


def observe(kind, rules, data, T, guided, tmpdir, table):
    spec = U.build_type(T) if guided else None
    dec = R.DEC[rules]
    fh = None
    try:
        if kind == 'bytes':
            sub = data
        elif kind == 'BytesIO':
            sub = io.BytesIO(data)
        elif kind == 'OctetString':
            sub = univ.OctetString(data)
        elif kind == 'Any':
            sub = univ.Any(data)
        elif kind == 'file':
            p = os.path.join(tmpdir, 'in-%d.ber' % os.getpid())
            with open(p, 'wb') as f:
                f.write(data)
            sub = fh = open(p, 'rb')
        elif kind == 'gzip':
            p = os.path.join(tmpdir, 'in-%d.gz' % os.getpid())
            with gzip.open(p, 'wb') as f:
                f.write(data)
            sub = fh = gzip.open(p, 'rb')
        elif kind == 'BufferedReader':
            sub = io.BufferedReader(io.BytesIO(data))
        elif kind == 'nonseekable':
            sub = BlockingRaw(data)
        if kind.startswith('stream-'):
            sub = data if kind == 'stream-bytes' else BlockingRaw(data)
            def go():
                out = []
                kw = {'asn1Spec': spec} if guided else {}
                for o in SP.STREAMING[rules](sub, **kw):
                    out.append(o)
                    if len(out) > 5000:
                        break
                return out
            st, r = R.guarded(go, seconds=60)
            if st == 'ok':
                vals = []
                for o in r:
                    vals.append(proj(T, guided, o))
                return ('ok', vals, b'')
            return (R.classify(r), [], b'')
        st, r = R.guarded(lambda: dec.decode(sub, asn1Spec=spec) if guided else dec.decode(sub), seconds=60)
        if st != 'ok':
            return (R.classify(r) + ':' + R.exc_name(r), [], b'')
        obj, rest = r
        return ('ok', [proj(T, guided, obj)], bytes(rest))
    finally:
        if fh is not None:
            fh.close()


def proj(T, guided, obj):
    try:
        if guided:
            return json.dumps(U.project(T, obj), sort_keys=True)
        return json.dumps([type(obj).__name__, R.leaves_of(obj)], sort_keys=True)
    except Exception as e:
        return 'unprojectable:' + type(e).__name__


def _kind_job(job):
    i, rules, data, T, guided, tmpdir = job
    obs = []
    for k in KINDS:
        o = observe(k, rules, data, T, guided, tmpdir, None)
        obs.append(o)
    return obs


def kinds_part(ctx, sc):
    rnd = random.Random(ctx.seed)
    inputs = []
    gen = dict(kinds=['int', 'octs', 'bits', 'bool', 'utf8', 'real'], tagnums=[0, 31], classes=[2], maxstack=1,
               shapes=['scalar', 'seqof', 'choice', 'deep', 'any'], pool=1, modes=['der', 'cer', 'ber_indef_c2'])
    cases = P.generate(ctx, sc, gen, name='MC_gen_kinds', invariants=['TypeOK', 'AllFormsDecode'])
    rnd.shuffle(cases)
    for c in cases[:150 if ctx.quick else 1200]:
        for m, w in sorted(c['forms'].items()):
            rules = m if m in ('der', 'cer') else 'ber'
            inputs.append((rules, bytes(w), c['T'], True))
            if len(w) > 2:
                inputs.append((rules, bytes(w[:len(w) // 2]), c['T'], True))          # truncated
                inputs.append((rules, bytes(w) + bytes(w[:1]), c['T'], True))          # garbage tail
                bad = bytearray(w)
                bad[rnd.randrange(len(bad))] ^= 1 << rnd.randrange(8)
                inputs.append((rules, bytes(bad), c['T'], True))                       # one bit flipped
    # sizes straddling the wrapper's buffer
    from pyasn1.codec.ber import encoder as be
    from pyasn1.codec.cer import encoder as ce
    octs = P.sc('octs')
    for n in (8190, 8191, 8192, 8193, 16385) + ((70000,) if not ctx.quick else ()):
        v = univ.OctetString(bytes((i * 7) % 256 for i in range(n)))
        inputs.append(('ber', be.encode(v), octs, True))
        inputs.append(('cer', ce.encode(v), octs, True))
        inputs.append(('ber', be.encode(v) + be.encode(univ.OctetString(b'xy')), octs, True))
    so = {'k': 'seqof', 'tags': [], 'of': P.sc('int')}
    sov = U.build_value(so, {'es': [U.int_term(i * 37 - 5000) for i in range(3000)]})
    inputs.append(('ber', be.encode(sov), so, True))
    inputs.append(('ber', be.encode(sov, defMode=False), so, True))
    inputs.append(('cer', ce.encode(sov), so, False))
    inputs.append(('ber', b''.join(be.encode(univ.Integer(i)) for i in range(3500)), P.sc('int'), True))
    # every alignment of element boundaries relative to the 8192-octet blocks of buffered readers
    soo = {'k': 'seqof', 'tags': [], 'of': P.sc('octs')}
    for shift in range(5):
        v = U.build_value(soo, {'es': [{'o': [7] * shift}] + [{'o': [i % 251]} for i in range(6000 if not ctx.quick else 3000)]})
        inputs.append(('ber', be.encode(v, defMode=False), soo, True))
        inputs.append(('cer', ce.encode(v), soo, shift % 2 == 0))
    nest = {'k': 'seqof', 'tags': [], 'of': {'k': 'seqof', 'tags': [], 'of': P.sc('octs')}}
    nv = U.build_value(nest, {'es': [{'es': [{'o': [j % 256] * 900} for j in range(4)]} for i in range(4)]})
    inputs.append(('ber', be.encode(nv), nest, True))
    inputs.append(('ber', be.encode(nv, defMode=False), nest, True))
    jobs = [(i, r, d, T, g, sc.path) for i, (r, d, T, g) in enumerate(inputs)]
    allobs = core.pmap(_kind_job, jobs, chunksize=8)
    table = {}
    def idx(x):
        key = repr(x)
        return table.setdefault(key, len(table) + 1)
    traces = []
    for (i, rules, data, T, guided, _), obs in zip(jobs, allobs):
        ev = []
        # streaming kinds are compared among themselves (list of objects), one-shot kinds with kind 'bytes'
        for part in (KINDS[:8], KINDS[8:]):
            for k in part:
                st, vals, rest = obs[KINDS.index(k)]
                ev += [KINDS.index(k) + 1, idx(st), idx(vals), idx(rest)]
            traces.append({'id': len(traces) + 1, 'ev': ev, 'input': i})
            ev = []
    st = []
    for t in traces[:50]:
        if len(st) < 2 and len(t['ev']) >= 8:
            c = json.loads(json.dumps(t))
            c['ev'][6] = c['ev'][6] + 999
            c['id'] = 10 ** 8 + len(st)
            st.append(c)
    path = sc.file('kinds.ndjson')
    with open(path, 'w') as f:
        for t in traces + st:
            f.write(json.dumps({'id': t['id'], 'ev': t['ev']}, separators=(',', ':')) + '\n')
    tlc.write_cfg(sc.file('kinds.cfg'), spec='TraceSpec')
    r = tlc.run(os.path.join(tlc.SPEC, 'Trace_Kinds.tla'), sc.file('kinds.cfg'), sc, env={'TRACE_FILE': path}, timeout=3000)
    ctx.add_tlc('kind independence', r)
    if not r.ok:
        raise core.Machinery('kinds acceptor failed: %s\n%s' % (r.errors[:3], r.out[-2000:]))
    rej = [p for p in r.printed if isinstance(p, list) and len(p) == 4 and p[0] == 'REJECT']
    if {p[1] for p in rej if p[1] >= 10 ** 8} != {t['id'] for t in st}:
        raise core.Machinery('kinds acceptor self-test failed')
    byid = {t['id']: t for t in traces}
    bad = set()
    for _, tid, j, clause in rej:
        if tid >= 10 ** 8:
            continue
        t = byid[tid]
        i, rules, data, T, guided, _ = jobs[t['input']]
        kind = KINDS[t['ev'][4 * (j - 1)] - 1]
        ref = KINDS[t['ev'][0] - 1]
        o = allobs[t['input']][KINDS.index(kind)]
        o0 = allobs[t['input']][KINDS.index(ref)]
        f = {'clause': clause, 'part': 'kinds', 'kind': kind, 'rules': rules, 'size': len(data), 'big': len(data) > io.DEFAULT_BUFFER_SIZE,
             'definite_container': data[:1] in (b'\x30', b'\x31') and len(data) > 1 and data[1] != 0x80,
             'obs': o[0], 'ref_obs': o0[0], 'guided': guided, 'claims_2GiB_or_more': _claims_huge(data)}
        ctx.report('%s: %s input of %d octets (%s...) as %s gives %s, as %s gives %s' % (
            clause, rules, len(data), data[:12].hex(), kind, o[0], ref, o0[0]), f,
            {'prop': 'C11', 'kind': 'kinds', 'rules': rules, 'data': data.hex() if len(data) < 4000 else data[:64].hex() + '...(%d octets)' % len(data),
             'T': T, 'guided': guided, 'as': kind, 'observed': [o[0], o[1][:1], o[2][:32].hex()], 'reference_kind': ref,
             'reference': [o0[0], o0[1][:1], o0[2][:32].hex()]})
        bad.add(tid)
    ctx.traces += len(traces) - len(bad)
    ctx.evaluations += sum(len(t['ev']) // 4 for t in traces)
    for (i, rules, data, T, guided, _) in jobs:
        ctx.keys.add(('kinds', rules, guided, min(len(data) // 4096, 20), P.shape_key(T)))
    ctx.sample({'input': jobs[0][2].hex()[:80], 'kinds': KINDS, 'observation ids (kind,status,value,remainder)*': traces[0]['ev']})
    ctx.extra['kind_inputs'] = len(jobs)


def run(ctx):
    with tlc.Scratch('c11') as sc:
        model_check(ctx, sc)
        apalache_inductive(ctx, sc)
        wrapper_part(ctx, sc)
        kinds_part(ctx, sc)
    ctx.rule = ('(a) every operation history of length 5 (quick) / 6 + 20000 random of length 12 (thorough) over '
                '{read 1|2|5, peek 1|5, seek back 1|2 (not before the mark), mark} units of 2048 octets on the real '
                'CachingStreamWrapper over a 12-unit non-seekable stream, accepted step by step by spec/Trace_Wrap.tla '
                '(actions of spec/CacheWrap.tla); (b) decode inputs (valid, truncated, bit-flipped, with tail; sizes around '
                '8192 and 16384; wide and deep containers) x 10 substrate kinds, compared by spec/Trace_Kinds.tla')
