"""C08 - malformed input fails cleanly: only library errors, always terminates."""
import io
import itertools
import json
import os
import random
import subprocess
import sys

from pyasn1 import error
from pyasn1.type import base

from .. import core, tlc, codec_pipeline as P, codec_run as R, stream_pipeline as SP
from .. import universe as U

ALPHABET = [0x00, 0x01, 0x02, 0x03, 0x04, 0x05, 0x06, 0x09, 0x1f, 0x24, 0x30, 0x31, 0x80, 0x81, 0xa0, 0xff]


class Counting(io.BytesIO):
    def __init__(self, data):
        super().__init__(data)
        self.steps = 0

    def read(self, n=-1):
        self.steps += 1
        return super().read(n)

    def seek(self, *a):
        self.steps += 1
        return super().seek(*a)


def is_value(obj):
    if not isinstance(obj, base.Asn1Item) or obj is base.noValue:
        return False
    try:
        if not obj.isValue:
            return False
        obj.prettyPrint()          # a value object can be printed and, if it has a length, measured
        if hasattr(obj, '__len__'):
            len(obj)
        return True
    except Exception:
        return False


def one(rules, data, spec, streaming):
    s = Counting(bytes(data))
    if streaming:
        def go():
            out = []
            kw = {'asn1Spec': spec} if spec is not None else {}
            for o in SP.STREAMING[rules](s, **kw):
                if isinstance(o, error.SubstrateUnderrunError):
                    return 'underrun'          # complete data: an underrun object means "needs more", stop polling
                out.append(o)
                if len(out) > 4 * len(data) + 4:
                    return 'toomany'
            return out
    else:
        def go():
            r = R.DEC[rules].decode(s, asn1Spec=spec) if spec is not None else R.DEC[rules].decode(s)
            return r
    st, r = R.guarded(go, seconds=4)
    if st == 'exc' and not isinstance(r, error.PyAsn1Error):
        # a loaded machine can stall or starve a worker (time-out, MemoryError, ...): only an outcome outside the library's
        # error hierarchy that REPEATS (with a generous limit) counts; a genuine foreign exception is deterministic
        s = Counting(bytes(data))
        st, r = R.guarded(go, seconds=40)
    if st == 'exc':
        if isinstance(r, R._Timeout):
            code = 5
        elif isinstance(r, error.PyAsn1Error):
            code = 2
        else:
            code = 3
    else:
        if streaming:
            if r == 'underrun':
                code = 2
            elif r == 'toomany':
                code = 5
            else:
                code = 1 if all(is_value(o) for o in r) else 4
        else:
            code = 1 if (isinstance(r, tuple) and len(r) == 2 and is_value(r[0])) else 4
    return [code, s.steps, len(data), 0], (type(r).__name__ if st == 'exc' else '')


def _batch(job):
    bid, rules, T, streaming, inputs = job
    spec = U.build_type(T) if T is not None else None
    ev, names = [], []
    for d in inputs:
        e, nm = one(rules, d, spec, streaming)
        ev += e
        names.append(nm)
    return ev, names


def mutations(w, rnd, limit):
    w = list(w)
    out = []
    for i in range(len(w)):
        for b in range(8):
            out.append(w[:i] + [w[i] ^ (1 << b)] + w[i + 1:])
        out.append(w[:i] + w[i + 1:])
        for a in (0x00, 0x80, 0xff, 0x30, 0x1f, 0x24):
            out.append(w[:i] + [a] + w[i:])
            out.append(w[:i] + [a] + w[i + 1:])
    for k in range(len(w)):
        out.append(w[:k])
    if len(out) > limit:
        out = rnd.sample(out, limit)
    return out


GUIDES = [None, P.sc('int'), P.sc('octs'), P.sc('bits'), P.sc('bool'), P.sc('oid'), P.sc('real'), P.sc('utf8'),
          {'k': 'seqof', 'tags': [], 'of': P.sc('int')},
          {'k': 'seq', 'tags': [], 'comps': [{'name': 'a', 't': P.sc('int'), 'mode': 'req'},
                                             {'name': 'b', 't': P.sc('octs'), 'mode': 'opt'},
                                             {'name': 'c', 't': P.sc('bool', [P.op('I', 2, 2)]), 'mode': 'def', 'dflt': {'b': False}}]},
          {'k': 'set', 'tags': [], 'comps': [{'name': 'a', 't': P.sc('int'), 'mode': 'req'},
                                             {'name': 'b', 't': P.sc('bits', [P.op('E', 2, 1)]), 'mode': 'opt'}]},
          {'k': 'choice', 'tags': [], 'alts': [{'name': 'x', 't': P.sc('int')}, {'name': 'y', 't': P.sc('octs')},
                                               {'name': 'z', 't': {'k': 'seqof', 'tags': [], 'of': P.sc('bool')}}]},
          P.sc('any'), P.sc('any', [P.op('E', 2, 0)])]


def check_dispatch_model(ctx, sc):
    """TLC on spec/DecoderSM.tla: the dispatch walk has no cycle, a value needs a decoder, every call ends"""
    depth = 2 if ctx.quick else 3
    with open(sc.file('MC_sm.cfg'), 'w') as f:
        f.write('SPECIFICATION Spec\nCONSTANT MaxDepth = %d\nCONSTANT MaxKids = 2\n' % depth +
                ''.join('INVARIANT %s\n' % i for i in ('TypeOK', 'FrameStepsBounded', 'ValueNeedsDecoder', 'CallersAreInValue',
                                                       'TopNeverEoo', 'ExplicitOnlyForTaggedConstructed')) +
                'PROPERTY RankIncreases\nPROPERTY Terminates\nCHECK_DEADLOCK FALSE\n')
    r = tlc.run(os.path.join(tlc.SPEC, 'DecoderSM.tla'), sc.file('MC_sm.cfg'), sc, timeout=3000, coverage=True)
    ctx.add_tlc('DecoderSM dispatch machine (depth %d, 2 members; safety + termination under weak fairness)' % depth, r)
    ctx.require_actions(r, ['Enter', 'Redispatch', 'EooFound', 'Step', 'Exit', 'Raise'], 'DecoderSM')
    if not r.ok:
        raise core.Machinery('DecoderSM model check failed: %s %s\n%s' % (r.violated, r.errors[:3], r.out[-1500:]))


def check_dispatch_proof(ctx, sc):
    """TLAPS: the rank theorem of the dispatch walk for ALL frames (spec/proofs/DecoderSMProofs.tla)"""
    st, x, secs = tlc.tlaps(sc, 'DecoderSMProofs', ['DecoderSM'])
    if st == 'proved':
        ctx.extra['tlaps'] = ('RankStrictlyIncreases and RankBounded proved by tlapm for all frames (%d obligations, %.0f s): '
                              'a frame of the dispatch walk takes at most 7 steps' % (x, secs))
    elif st == 'failed':
        raise core.Machinery('TLAPS: proof obligations of DecoderSMProofs failed:\n' + x)
    else:
        ctx.extra['tlaps'] = 'not discharged in this run (%s)' % x


def dispatch_part(ctx, sc, rnd, jobs, labels, picked):
    """the decoder's own state transitions (PYASN1_VERIF_TRACE hook) against spec/DecoderSM.tla"""
    check_dispatch_model(ctx, sc)
    check_dispatch_proof(ctx, sc)
    per = 10 if ctx.quick else 30
    sm, meta = [], {}
    for job in jobs:
        bid, rules, T, streaming, inputs = job
        for d in (inputs if len(inputs) <= per else rnd.sample(inputs, per)):
            jid = len(sm) + 1
            sm.append([jid, rules, T, streaming, [list(d)]])
            meta[jid] = (labels[bid][0], rules, T, streaming)
    # valid encodings fed to the streaming decoder in pieces: frames are suspended by an underrun and resumed
    for c in picked:
        for m, w in sorted(c['forms'].items()):
            if len(w) > 40 or len(w) < 2:
                continue
            rules = m if m in ('der', 'cer') else 'ber'
            for _ in range(2 if ctx.quick else 6):
                cuts = sorted(rnd.sample(range(1, len(w)), min(len(w) - 1, rnd.randint(1, 4))))
                chunks = [list(w[a:b]) for a, b in zip([0] + cuts, cuts + [len(w)])]
                for T in (c['T'], None):
                    jid = len(sm) + 1
                    sm.append([jid, rules, T, True, chunks])
                    meta[jid] = ('valid encoding in %d pieces' % len(chunks), rules, T, True)
    inp, outp = sc.file('sm_in.json'), sc.file('sm.ndjson')
    json.dump(sm, open(inp, 'w'), separators=(',', ':'))
    env = dict(os.environ, PYASN1_VERIF_TRACE='1')
    p = subprocess.run([sys.executable, '-m', 'harness.sm_collect', inp, outp], env=env, stdout=subprocess.PIPE,
                       stderr=subprocess.STDOUT, text=True, timeout=3000)
    if p.returncode != 0:
        raise core.Machinery('hooked collector failed: ' + p.stdout[-1500:])
    traces = [json.loads(x) for x in open(outp)]
    W = 10
    nev = sum(len(t['ev']) for t in traces) // W
    # self-tests: a trace of a successful nested decode, corrupted in several ways
    def suitable(t):
        e = t['ev']
        kinds = [e[i] for i in range(0, len(e), W)]
        return (e[-W + 2] == 1 and kinds.count(1) >= 2 and kinds.count(5) >= 2 and
                any(e[i] == 3 and e[i + 2] == 6 for i in range(0, len(e), W)) and
                any(e[i] == 3 and e[i + 2] == 2 for i in range(0, len(e), W)))
    base = next((t for t in traces if suitable(t)), None)
    if base is None:
        raise core.Machinery('no recorded decoder run is suitable for the dispatch self-tests')
    ev = base['ev']
    rows = range(0, len(ev), W)
    vi = next(i for i in rows if ev[i] == 3 and ev[i + 2] == 6)
    st = []
    x = list(ev); x[vi + 3] = 2 if x[vi + 3] != 2 else 1
    st.append({'id': 10 ** 8, 'ev': x})                                  # another decoder kind
    st.append({'id': 10 ** 8 + 1, 'ev': ev[:vi] + ev[vi + W:]})          # the Value state never entered
    xi = [i for i in rows if ev[i] == 5][-1]          # the outermost frame's return (never a raw-substrate collector)
    x = list(ev); x[xi + 2] = 0
    st.append({'id': 10 ** 8 + 2, 'ev': x})                              # returns no value
    gi = next(i for i in rows if ev[i] == 3 and ev[i + 2] == 2)
    x = list(ev); x[gi + 5] = 8; x[gi + 3] = 0
    st.append({'id': 10 ** 8 + 3, 'ev': x})                              # the tag read was an unknown universal one
    x = list(ev); x[xi + 8] += 1
    st.append({'id': 10 ** 8 + 4, 'ev': x})                              # a frame returns one octet late
    ci = [i for i in rows if ev[i] == 1][1]
    x = list(ev); x[ci + 8] += 1
    st.append({'id': 10 ** 8 + 5, 'ev': x})                              # a member call starts one octet late
    os.remove(outp)
    try:
        printed = tlc.run_traces(ctx, sc, 'Trace_DecoderSM', traces + st, 'dispatch trace acceptor', nev=lambda t: len(t['ev']) // W,
                                 max_events=250000, heap='16g')
    except tlc.AcceptorFailure as e:
        raise core.Machinery('dispatch acceptor failed: %s' % e)

    class _R:      # noqa
        pass
    r = _R()
    r.printed = printed
    rej = [q for q in r.printed if isinstance(q, list) and len(q) == 4 and q[0] == 'REJECT']
    if {q[1] for q in rej if q[1] >= 10 ** 8} != {10 ** 8 + i for i in range(6)}:
        raise core.Machinery('dispatch acceptor self-test failed: %s' % [q for q in rej if q[1] >= 10 ** 8])
    ctx.extra['dispatch_selftest'] = ('hook traces with a swapped decoder kind, a skipped Value state, a valueless return, an altered tag, a late '
                                      'return and a late member call are all rejected')
    byid = {t['id']: t for t in traces}
    bad = set()
    for _, tid, j, clause in rej:
        if tid >= 10 ** 8:
            continue
        what, rules, T, streaming = meta[tid]
        job = sm[tid - 1]
        data = bytes(b for c in job[4] for b in c)
        bad.add(tid)
        ctx.report('dispatch %s: %s decoder (%s, guide %s) on %s at event %d' % (
            clause, rules, 'streaming' if streaming else 'one-shot', P.shape_key(T) if T else 'schemaless', data.hex(), j),
            {'clause': clause, 'part': 'dispatch', 'rules': rules, 'guide': P.shape_key(T) if T else 'schemaless',
             'streaming': streaming, 'source': what.split(' ')[0],
             'nested_bitstring': any(data[i] == 0x23 and 0x23 in data[i + 1:i + 4] for i in range(len(data)))},
            {'prop': 'C08', 'kind': 'dispatch', 'rules': rules, 'T': T, 'streaming': streaming, 'chunks': job[4],
             'clause': clause, 'event': j, 'events': byid[tid]['ev']})
    ctx.traces += len(traces) - len(bad)
    ctx.evaluations += nev
    ctx.extra['dispatch'] = '%d decoder runs, %d hook events validated against spec/DecoderSM.tla' % (len(traces), nev)
    ctx.sample({'dispatch trace (10-tuples kind,cid,a..f,pos,len)': base['ev'][:80], 'input': sm[base['id'] - 1][4]})


def run(ctx):
    rnd = random.Random(ctx.seed)
    maxlen = 3 if ctx.quick else 4
    jobs = []
    labels = {}
    bid = 0
    # (a) every octet string up to maxlen over the structural alphabet
    strings = [list(t) for n in range(0, maxlen + 1) for t in itertools.product(ALPHABET, repeat=n)]
    if not ctx.quick:
        strings = strings[:4369] + rnd.sample(strings[4369:], 20000)
    for rules in ('ber', 'cer', 'der'):
        for T in GUIDES:
            for streaming in (False, True):
                for i in range(0, len(strings), 1200):
                    bid += 1
                    jobs.append((bid, rules, T, streaming, strings[i:i + 1200]))
                    labels[bid] = ('alphabet strings', rules, P.shape_key(T) if T else 'schemaless', streaming, None)
    # (a') grammar-based inputs aimed at the contents syntaxes (REAL character and binary forms, OID arcs, lengths at the
    # platform limits, empty explicit wrappers)
    import sys as _sys
    def tlv(tag, content):
        n = len(content)
        ln = [n] if n < 128 else [0x80 | ((n.bit_length() + 7) // 8)] + list(n.to_bytes((n.bit_length() + 7) // 8, 'big'))
        return [tag] + ln + list(content)
    crafted = []
    for txt in (b'nan', b'inf', b'-inf', b'NaN', b'1e400', b'1E400', b'-1.5E-400', b'', b' 1', b'1 ', b'0x10', b'1_0', b'+', b'.',
                b'E', b'1E', b'9' * 400, b'1' + b'0' * 310, b'--1', b'1e+', b'\xff'):
        for nr in (1, 2, 3, 0, 4, 0x3f):
            crafted.append(tlv(9, bytes([nr]) + txt))
    for c in ([0x80], [0x80, 1], [0x83, 0, 1], [0x83, 255, 1], [0x83, 1, 1], [0xb0, 1, 1], [0xc0, 1, 1], [0x82, 0x7f, 0xff, 0xff, 1],
              [0x8f, 1, 1], [0x40], [0x41], [0x42], [0x43], [0x44, 0], [0x40, 0], [0xff] * 5, [0x81, 0x7f] + [0xff] * 300):
        crafted.append(tlv(9, bytes(c)))
    for c in ([0x80], [0x80, 1], [0xff] * 30 + [0x7f], [0x2a, 0x80, 0x80, 1], [0x78], [0xff], [0x2a, 0xff]):
        crafted.append(tlv(6, bytes(c)))
    for c in ([7], [8], [7, 0], [0], [9, 1], [255]):
        crafted.append(tlv(3, bytes(c)))
    for t in (4, 2, 3, 0x0c, 0x30, 0x24, 0xa0, 5, 1, 9, 6):
        for ln in (_sys.maxsize, _sys.maxsize - 1, _sys.maxsize + 1, 2 ** 63, 2 ** 64 - 1, 2 ** 32, 2 ** 31 - 1):
            crafted.append([t, 0x88] + list(ln.to_bytes(8, 'big')) + [1, 2, 3])
    crafted += [[0xa0, 0x80, 0, 0], [0xa0, 0], [0xa0, 0x80, 0xa0, 0x80, 0, 0, 0, 0], [0x30, 0x80, 0xa0, 0x80, 0, 0, 0, 0],
                [0x24, 0x80, 0, 0], [0x23, 0x80, 0, 0], [0x23, 2, 0xa0, 0], [0x24, 2, 0xa0, 0], [0x2c, 0x80, 0, 0],
                [0x31, 0x80, 0xa1, 0x80, 0, 0, 0, 0], [0xa7, 0x80, 0, 0], [0xa9, 0x80, 0, 0],
                list(bytes.fromhex('bf1f0d230b23010303000000030206c0')), list(bytes.fromhex('230b23010303000000030206c0'))]
    for rules in ('ber', 'cer', 'der'):
        for T in GUIDES + [P.sc('int', [P.op('E', 2, 0)]),
                           {'k': 'choice', 'tags': [P.op('E', 2, 0)], 'alts': [{'name': 'x', 't': P.sc('int')}, {'name': 'y', 't': P.sc('null')}]}]:
            for streaming in (False, True):
                bid += 1
                jobs.append((bid, rules, T, streaming, crafted))
                labels[bid] = ('grammar-based contents', rules, P.shape_key(T) if T else 'schemaless', streaming, None)
    # (b) mutations of valid encodings from the universe, decoded under their own type and schemaless
    with tlc.Scratch('c08') as sc:
        gen = dict(kinds=['int', 'octs', 'bits', 'bool', 'utf8', 'real', 'oid', 'null'], tagnums=[0, 31], classes=[2],
                   maxstack=1, shapes=['scalar', 'seqof', 'setof', 'choice', 'deep', 'any'], pool=1,
                   modes=['der', 'cer', 'ber_indef_c1', 'v_indefdef', 'v_nest'])
        cases = P.generate(ctx, sc, gen, invariants=['TypeOK', 'AllFormsDecode', 'ReadersMonotone'])
        cases.sort(key=lambda c: json.dumps([c['T'], c['v']], sort_keys=True))    # TLC's dump order varies with its workers
        rnd.shuffle(cases)
        picked = []
        seen = set()
        for c in cases:
            k = P.shape_key(c['T'])
            if seen.__contains__(k) and len(picked) > (60 if ctx.quick else 400):
                continue
            seen.add(k)
            picked.append(c)
            if len(picked) >= (140 if ctx.quick else 900):
                break
        for c in picked:
            for m, w in sorted(c['forms'].items()):
                if len(w) > 40:
                    continue
                rules = m if m in ('der', 'cer') else 'ber'
                muts = mutations(w, rnd, 160 if ctx.quick else 600)
                for T in (c['T'], None):
                    for streaming in (False, True):
                        bid += 1
                        jobs.append((bid, rules, T, streaming, muts))
                        labels[bid] = ('mutations of ' + bytes(w).hex(), rules, P.shape_key(T) if T else 'schemaless', streaming, w)
        results = core.pmap(_batch, jobs, chunksize=4)
        path = sc.file('clean.ndjson')
        st_traces = [{'id': 10 ** 8, 'ev': [3, 1, 1, 0]}, {'id': 10 ** 8 + 1, 'ev': [1, 9999, 2, 0]}]
        with open(path, 'w') as f:
            for job, (ev, names) in zip(jobs, results):
                f.write(json.dumps({'id': job[0], 'ev': ev}, separators=(',', ':')) + '\n')
            for t in st_traces:
                f.write(json.dumps(t) + '\n')
        tlc.write_cfg(sc.file('clean.cfg'), spec='TraceSpec')
        r = tlc.run(os.path.join(tlc.SPEC, 'Trace_Clean.tla'), sc.file('clean.cfg'), sc, env={'TRACE_FILE': path}, timeout=3000,
                    heap='16g')
        ctx.add_tlc('clean failure acceptor', r)
        if not r.ok:
            raise core.Machinery('clean acceptor failed: %s\n%s' % (r.errors[:3], r.out[-2000:]))
        rej = [p for p in r.printed if isinstance(p, list) and len(p) == 4 and p[0] == 'REJECT']
        if {p[1] for p in rej if p[1] >= 10 ** 8} != {10 ** 8, 10 ** 8 + 1}:
            raise core.Machinery('clean acceptor self-test failed')
        ctx.extra['acceptor_selftest'] = 'foreign exception and step-bound violation injected, both rejected'
        byid = {job[0]: (job, res) for job, res in zip(jobs, results)}
        bad = set()
        for _, tid, j, clause in rej:
            if tid >= 10 ** 8:
                continue
            job, (ev, names) = byid[tid]
            _, rules, T, streaming, inputs = job
            data = inputs[j - 1]
            what, _, shape, _, basew = labels[tid]
            f = {'clause': clause, 'rules': rules, 'guide': shape, 'streaming': streaming, 'exc': names[j - 1],
                 'len': len(data), 'source': what.split(' ')[0], 'hex': bytes(data).hex() if len(data) <= 6 else '',
                 'first': '%02x' % data[0] if data else '',
                 'nested_bitstring': any(data[i] == 0x23 and 0x23 in data[i + 1:i + 4] for i in range(len(data)))}
            ctx.report('%s: %s decoder (%s, guide %s) on %s -> %s steps=%d' % (
                clause, rules, 'streaming' if streaming else 'one-shot', shape, bytes(data).hex(), names[j - 1] or ev[4 * (j - 1)],
                ev[4 * (j - 1) + 1]), f,
                {'prop': 'C08', 'rules': rules, 'T': T, 'streaming': streaming, 'input': bytes(data).hex(), 'clause': clause,
                 'exception': names[j - 1], 'mutated_from': bytes(basew).hex() if basew else None})
            bad.add((tid, j))
        n = sum(len(job[4]) for job in jobs)
        ctx.traces += n - len(bad)
        ctx.evaluations += n
        for job in jobs:
            ctx.keys.add(labels[job[0]][:4])
        ctx.sample({'batch': labels[jobs[0][0]][:4], 'inputs': [bytes(x).hex() for x in jobs[0][4][20:26]],
                    'events (status,steps,len,0)*': results[0][0][80:104]})
        ctx.sample({'batch': labels[jobs[-1][0]][:4], 'inputs': [bytes(x).hex() for x in jobs[-1][4][:4]],
                    'events (status,steps,len,0)*': results[-1][0][:16]})
        dispatch_part(ctx, sc, rnd, jobs, labels, picked)
    ctx.rule = ('(a) all octet strings of length <= %d over the 16-octet structural alphabet x {BER,CER,DER} x {one-shot, '
                'streaming} x 14 guides (13 types + schemaless); (b) single bit flips, deletions, insertions, replacements '
                'and truncations of valid encodings of the universe, under their own type and schemaless; each input is one '
                'event of spec/Trace_Clean.tla (status class + step bound %s); (c) the state transitions of the decoder itself, recorded '
                'through the PYASN1_VERIF_TRACE hook for a sample of (a), (b) and for valid encodings streamed in pieces, validated '
                'against the dispatch machine spec/DecoderSM.tla (model-checked: acyclic walk, termination)' % (maxlen, '24*len+64'))
    ctx.exhaustive = ctx.quick
