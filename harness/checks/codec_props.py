"""Planners of the codec properties C01, C02, C06 (one-shot clause), C07 (one-shot clause), C09, C13, C15, C16:
which library operations are executed for every case of the universe, and which clauses of the
acceptor belong to the property."""
import copy
import json

from .. import core, tlc, codec_pipeline as P, codec_run as R
from .. import universe as U

ALL_SCALARS = ['bool', 'int', 'enum', 'bits', 'octs', 'null', 'oid', 'real', 'utf8', 'numeric', 'printable',
               't61', 'videotex', 'ia5', 'graphic', 'visible', 'general', 'universal', 'bmp', 'objdesc',
               'gentime', 'utctime']
ALL_SHAPES = ['scalar', 'any', 'seq', 'set', 'seqof', 'setof', 'choice', 'deep']

BER_LIB_MODES = ['ber_def', 'ber_indef', 'ber_def_c1', 'ber_indef_c1', 'ber_def_c2', 'ber_indef_c2',
                 'ber_def_c3', 'ber_indef_c3', 'ber_def_c7', 'ber_indef_c7']
VARIANT_MODES = ['v_long', 'v_pad', 'v_mixlen', 'v_defindef', 'v_indefdef', 'v_nest', 'v_nestindef', 'v_chunkx',
                 'v_true7f', 'v_true80', 'v_trueff', 'v_perm', 'v_sorted', 'v_emitdef']


_SPECS = {}


def shared_spec(T):
    """schema objects are long-lived and shared in real programs: one per type term and process"""
    import json
    key = json.dumps(T, sort_keys=True)
    if key not in _SPECS:
        _SPECS[key] = U.build_type(T)
    return _SPECS[key]


def build(case):
    try:
        spec = shared_spec(case['T'])
        return spec, U.build_value(case['T'], case['v'], spec), None
    except Exception as e:
        return None, None, '%s: %s' % (type(e).__name__, e)


def trace(case, ev, err=None):
    t = {'id': case['id'], 'T': case['T'], 'v': case['v'], 'ev': ev}
    if err:
        t['build_error'] = err
    return t


# ------------------------------------------------------------------------------------------- C01
C01_MODES = [(d, c) for d in (True, False) for c in (0, 1, 2, 3, 7, 1000)]


def plan_c01(case):
    spec, obj, err = build(case)
    if err:
        return trace(case, [], err)
    ev = []
    for d, c in C01_MODES:
        e = R.enc_event('ber', obj, d, c)
        ev.append(e)
        if e['st'] == 'ok':
            ev.append(R.dec_event('ber', e['wire'], case['T'], spec, 'own', src=len(ev)))
    return trace(case, ev)


# ------------------------------------------------------------------------------------------- C03
def plan_c03(case):
    spec, obj, err = build(case)
    if err:
        return trace(case, [], err)
    ev = [R.enc_event('der', obj), R.enc_event('cer', obj)]
    # tiny segments of a 64 KiB string make tens of thousands of TLVs, which the TLA+ reader takes hours to walk (it copies
    # the remainder at every TLV): the very large size cases are judged in DER, CER and unsegmented BER only
    huge = len(json.dumps(case['v'])) > 100000
    for d, c in ((True, 0), (False, 0)) + (() if huge else ((True, 2), (False, 3))):
        ev.append(R.enc_event('ber', obj, d, c))
    return trace(case, ev)


# ------------------------------------------------------------------------------------------- C02
PAIRS = {'der': ['der', 'cer', 'ber'], 'cer': ['cer', 'ber']}


def plan_c02(case):
    spec, obj, err = build(case)
    if err:
        return trace(case, [], err)
    ev = []
    for codec, decs in PAIRS.items():
        e = R.enc_event(codec, obj)
        ev.append(e)
        src = len(ev)
        if e['st'] != 'ok':
            continue
        got = []
        for r in decs:
            d = R.dec_event(r, e['wire'], case['T'], spec, 'own', src=src)
            ev.append(d)
            if d['st'] == 'ok' and d['proj'] == 'ok':
                got.append(d['v'])
        if len(got) > 1:
            ev.append({'op': 'agree', 'vs': got})
    # the model's own canonical encodings (valid by construction) through every wider decoder
    for m, decs in PAIRS.items():
        w = case['forms'].get(m)
        if w is not None:
            for r in decs:
                ev.append(R.dec_event(r, w, case['T'], spec, 'form'))
    return trace(case, ev)


# ------------------------------------------------------------------------------------------- C09
def plan_c09(case):
    spec, obj, err = build(case)
    if err:
        return trace(case, [], err)
    ev = []
    seen = set()
    for m in sorted(case['forms']):
        w = case['forms'][m]
        if tuple(w) in seen:
            continue
        seen.add(tuple(w))
        e = R.dec_event('ber', w, case['T'], spec, 'form')
        e['mode'] = m
        ev.append(e)
    return trace(case, ev)


# ------------------------------------------------------------------------------------------- C07 (one-shot)
def tails_for(w):
    return [[0, 0], [255], list(w)]


def plan_c07(case):
    spec, obj, err = build(case)
    if err:
        return trace(case, [], err)
    ev = []
    for codec, d, c in (('der', True, 0), ('cer', True, 0), ('ber', False, 2)):
        e = R.enc_event(codec, obj, d, c)
        ev.append(e)
        src = len(ev)
        if e['st'] != 'ok':
            continue
        for t in [[]] + tails_for(e['wire']):
            ev.append(R.dec_event(codec, e['wire'] + t, case['T'], spec, 'tail' if t else 'own', tail=t, src=src))
    for m in ('ber_indef', 'v_indefdef', 'v_nestindef'):
        w = case['forms'].get(m)
        if w is None:
            continue
        rules = m if m in ('der', 'cer') else 'ber'
        for t in ([0, 0], [0], [5, 0]):
            e = R.dec_event(rules, w + t, case['T'], spec, 'tail', tail=t)
            e['mode'] = m
            ev.append(e)
    return trace(case, ev)


# ------------------------------------------------------------------------------------------- C06 (one-shot)
def plan_c06(case):
    spec, obj, err = build(case)
    if err:
        return trace(case, [], err)
    ev = []
    wires = []
    for codec, d, c in (('der', True, 0), ('cer', True, 0), ('ber', False, 0), ('ber', True, 2), ('ber', False, 1)):
        e = R.enc_event(codec, obj, d, c)
        ev.append(e)
        if e['st'] == 'ok':
            wires.append((codec, e['wire'], len(ev), ''))
    for m in sorted(case['forms']):
        rules = m if m in ('der', 'cer') else 'ber'
        wires.append((rules, case['forms'][m], 0, m))
    seen = set()
    for rules, w, src, form in wires:
        if (rules, tuple(w)) in seen or len(w) > 80:
            continue
        seen.add((rules, tuple(w)))
        for guided, via in ((True, 'bytes'), (True, 'stream'), (False, 'bytes')):
            sts, excs = [], []
            for k in range(len(w)):
                d = R.dec_event(rules, w[:k], case['T'], spec, 'prefix', guided=guided, via=via)
                sts.append(d['st'])
                excs.append(d['exc'])
            ev.append({'op': 'pfxs', 'wire': list(w), 'src': src, 'mode': form, 'rules': rules, 'guided': guided,
                       'via': via, 'sts': sts, 'excs': excs})
    return trace(case, ev)


# ------------------------------------------------------------------------------------------- C13
def perturbations(T):
    out = []
    for i, op in enumerate(T['tags']):
        for c in (1, 2, 3):
            if c != op['c']:
                t2 = copy.deepcopy(T)
                t2['tags'][i]['c'] = c
                out.append(t2)
                break
        n = U.unbig(op['n'])
        for n2 in (n + 1, n - 1 if n > 0 else n + 2):
            t2 = copy.deepcopy(T)
            t2['tags'][i]['n'] = U.big(n2)
            out.append(t2)
    return out


def plan_c13(case):
    T = case['T']
    spec, obj, err = build(case)
    if err:
        return trace(case, [], err)
    ev = [{'op': 'tags', 'tags': [{'c': t.tagClass >> 6, 'f': 1 if t.tagFormat else 0, 'n': U.big(t.tagId)}
                                  for t in reversed(spec.tagSet.superTags)]}]
    from pyasn1.type import tag as _tag, univ as _univ
    for cls in (0, 1, 2, 3):
        st, r = R.guarded(lambda: _univ.Integer().subtype(
            explicitTag=_tag.Tag(U.CLASS_BITS[cls], _tag.tagFormatSimple, 5)))
        ev.append({'op': 'tagx', 'cls': cls, 'st': 'ok' if st == 'ok' else 'raise',
                   'exc': '' if st == 'ok' else R.exc_name(r)})
    wires = []
    for codec, d, c in (('der', True, 0), ('ber', False, 0), ('cer', True, 0)):
        e = R.enc_event(codec, obj, d, c)
        ev.append(e)
        if e['st'] == 'ok':
            src = len(ev)
            ev.append(R.dec_event(codec, e['wire'], T, spec, 'own', src=src))
            wires.append((codec, e['wire']))
    w = case['forms'].get('der')
    if w is not None:
        wires.append(('ber', w))
    if T['k'] not in ('any',) and wires:
        for T2 in perturbations(T):
            try:
                spec2 = U.build_type(T2)
            except Exception:
                continue
            codec, wv = wires[-1]
            e = R.dec_event(codec, wv, T2, spec2, 'nearmiss')
            e['v'] = {'nul': 0}
            e['T2'] = T2
            ev.append(e)
    return trace(case, ev)


# ------------------------------------------------------------------------------------------- C15
def parse_tlv(b, pos=0):
    """definite-length TLV tree of DER bytes: (node, end); node = dict(tagoct, cons, content|kids)"""
    start = pos
    first = b[pos]
    pos += 1
    if first & 0x1f == 0x1f:
        while b[pos] & 0x80:
            pos += 1
        pos += 1
    idoct = b[start:pos]
    l = b[pos]
    pos += 1
    if l & 0x80:
        k = l & 0x7f
        ln = int.from_bytes(bytes(b[pos:pos + k]), 'big')
        pos += k
    else:
        ln = l
    end = pos + ln
    node = {'id': list(idoct), 'cons': bool(first & 0x20)}
    if node['cons']:
        kids = []
        while pos < end:
            kid, pos = parse_tlv(b, pos)
            kids.append(kid)
        node['kids'] = kids
    else:
        node['content'] = list(b[pos:end])
    return node, end


def ser_len(n):
    if n < 128:
        return [n]
    bs = list(n.to_bytes((n.bit_length() + 7) // 8, 'big'))
    return [0x80 | len(bs)] + bs


def ser(node):
    if node.get('raw') is not None:
        return node['raw']
    body = node['content'] if not node['cons'] else [x for k in node['kids'] for x in ser(k)]
    if node.get('indef'):
        return node['id'] + [0x80] + body + [0, 0]
    return node['id'] + ser_len(len(body)) + body


def nodes_of(node, acc=None):
    acc = acc if acc is not None else []
    acc.append(node)
    for k in node.get('kids', []):
        nodes_of(k, acc)
    return acc


def rewrites(der):
    """candidate single-element non-canonical rewrites of a DER encoding: (name, bytes).
    Candidates are only proposals: the acceptor judges a candidate only when the reference model
    confirms that it is value-preserving under BER and refused by the strict reader."""
    root, end = parse_tlv(der)
    out = []
    for idx, n in enumerate(nodes_of(root)):
        if n['cons']:
            n['indef'] = True
            out.append(('indef@%d' % idx, ser(root)))
            n['indef'] = False
        else:
            c = n['content']
            if len(c) == 1 and c[0] == 0xff:
                for alt in (0x01, 0x7f, 0x80):
                    n['content'] = [alt]
                    out.append(('true%02x@%d' % (alt, idx), ser(root)))
                n['content'] = c
            if len(c) >= 1:
                saved = dict(n)
                for ftag, nm in ((4, 'segoct'), (3, 'segbit')):
                    n['cons'] = True
                    n['id'] = [saved['id'][0] | 0x20] + saved['id'][1:]
                    n['kids'] = [{'id': [ftag], 'cons': False, 'content': c}]
                    out.append(('%s@%d' % (nm, idx), ser(root)))
                    if len(c) >= 3 and ftag == 4:
                        n['kids'] = [{'id': [4], 'cons': False, 'content': c[:1]},
                                     {'id': [4], 'cons': False, 'content': c[1:]}]
                        out.append(('%s2@%d' % (nm, idx), ser(root)))
                    n.clear()
                    n.update(saved)
    return out


def plan_c15(case):
    spec, obj, err = build(case)
    if err:
        return trace(case, [], err)
    e = R.enc_event('der', obj)
    ev = [e]
    der = case['forms'].get('der')
    if der is None:
        return trace(case, ev)
    seen = set()
    for name, b in rewrites(der):
        if tuple(b) in seen:
            continue
        seen.add(tuple(b))
        # the BER decoder, which accepts the rewritten form, runs first in the same process: the strict decoders must
        # not pick up anything it left behind (codec singletons, caches)
        R.guarded(lambda: R.DEC['ber'].decode(bytes(b)), seconds=10)
        R.guarded(lambda: R.DEC['ber'].decode(bytes(b), asn1Spec=spec), seconds=10)
        for rules in ('der', 'cer'):
            if rules == 'cer' and not name.startswith('true'):
                continue
            for guided in (True, False):
                d = R.dec_event(rules, b, case['T'], spec, 'rewrite', guided=guided)
                d['rw'] = name.split('@')[0]
                d['depth'] = int(name.split('@')[1])
                ev.append(d)
    return trace(case, ev)


# ------------------------------------------------------------------------------------------- C16
def self_describing(T):
    """no IMPLICIT tags, no ANY, no SET OF / SEQUENCE OF with members of differing tags (CHOICE members)"""
    for t in P.walk_types(T):
        if t['k'] == 'any':
            return False
        if any(o['m'] == 'I' for o in t.get('tags', [])):
            return False
        if t['k'] in ('setof', 'seqof') and t['of']['k'] == 'choice':
            return False
    return True


def plan_c16(case):
    if not self_describing(case['T']):
        return trace(case, [])
    spec, obj, err = build(case)
    if err:
        return trace(case, [], err)
    ev = []
    for codec, d, c in (('der', True, 0), ('cer', True, 0), ('ber', True, 0), ('ber', False, 0), ('ber', True, 2), ('ber', False, 3)):
        e = R.enc_event(codec, obj, d, c)
        ev.append(e)
        if e['st'] == 'ok':
            ev.append(R.decu_event(codec, codec, e['wire'], src=len(ev)))
    for m in ('der', 'cer', 'v_indefdef', 'v_long'):
        w = case['forms'].get(m)
        if w is not None:
            ev.append(R.decu_event(m if m in ('der', 'cer') else 'ber', 'other', w))
    return trace(case, ev)


# ------------------------------------------------------------------------------------------- C04
def build_variant(T, v, how, spec=None):
    """the same abstract value, built another way (top level; nested members are built the plain way)"""
    k = T['k']
    spec = spec if spec is not None else U.build_type(T)
    if k in ('seq', 'set'):
        obj = spec.clone()
        obj.clear()
        order = list(range(len(T['comps'])))
        if how in ('reverse', 'byname-reverse'):
            order.reverse()
        for i in order:
            cp, c = T['comps'][i], v['cs'][i]
            if c['p']:
                if how == 'skip-default' and cp['mode'] == 'def' and json_eq(c['v'], cp['dflt']):
                    continue                                      # equal to the DEFAULT: leave it out
                val = U.build_value(cp['t'], c['v'])
            elif cp['mode'] == 'def' and how == 'explicit-default':
                val = U.build_value(cp['t'], cp['dflt'])         # absent DEFAULT: set it explicitly
            else:
                continue
            if how.startswith('byname'):
                obj.setComponentByName(cp['name'], val)
            else:
                obj.setComponentByPosition(i, val)
        return obj
    if k in ('seqof', 'setof'):
        obj = spec.clone()
        obj.clear()
        items = list(v['es'])
        if k == 'setof' and how == 'reverse':
            items.reverse()
        if how == 'extend':
            obj.extend([U.build_value(T['of'], x) for x in items])
        else:
            for x in items:
                obj.append(U.build_value(T['of'], x))
        if k == 'setof' and how == 'rotate' and len(items) > 1:
            obj2 = spec.clone()
            obj2.clear()
            for x in items[1:] + items[:1]:
                obj2.append(U.build_value(T['of'], x))
            return obj2
        return obj
    return U.build_value(T, v, spec)


def json_eq(a, b):
    import json
    return json.dumps(a, sort_keys=True) == json.dumps(b, sort_keys=True)


def read_only_uses(T, obj):
    """uses that must not change what is encoded afterwards (a use may itself raise - e.g. float() of a huge REAL -
    what matters is the object afterwards)"""
    from pyasn1.codec.ber import encoder as be
    from pyasn1.codec.native import encoder as ne
    constructed = T['k'] in ('seq', 'set', 'seqof', 'setof', 'choice')
    uses = [lambda: be.encode(obj), lambda: be.encode(obj, defMode=False, maxChunkSize=2), lambda: obj.prettyPrint(),
            lambda: repr(obj), lambda: str(obj), lambda: obj == obj, lambda: obj != obj, lambda: ne.encode(obj),
            lambda: bool(obj.isValue), lambda: obj.prettyPrintType()]
    if not constructed:
        uses += [lambda: hash(obj), lambda: obj == obj.clone()]
    if T['k'] in ('seqof', 'setof', 'seq', 'set'):
        uses += [lambda: [obj.getComponentByPosition(i, default=None, instantiate=False) for i in range(len(obj))],
                 lambda: len(obj), lambda: list(obj)]
    if T['k'] in ('seq', 'set'):
        uses += [lambda: list(obj.keys()), lambda: list(obj.items()), lambda: [cp['name'] in obj for cp in T['comps']]]
    if T['k'] == 'choice':
        uses += [lambda: obj.getName(), lambda: obj.getComponent(), lambda: len(obj), lambda: list(obj)]
    for u in uses:
        try:
            u()
        except Exception:
            pass


def plan_c04(case):
    T, v = case['T'], case['v']
    try:
        spec = shared_spec(T)
    except Exception as e:
        return trace(case, [], '%s: %s' % (type(e).__name__, e))
    builders = [('direct', lambda: U.build_value(T, v, spec))]
    if T['k'] in ('seqof', 'setof') and len(v['es']) > 1:
        def descending():
            o = spec.clone()
            o.clear()
            for i in reversed(range(len(v['es']))):
                o.setComponentByPosition(i, U.build_value(T['of'], v['es'][i]))
            return o
        builders.append(('index-descending', descending))
        builders.append(('index-descending-clone', lambda: descending().clone(cloneValueFlag=True)))
    if T['k'] in ('seq', 'set'):
        for how in ('reverse', 'byname', 'byname-reverse', 'explicit-default', 'skip-default'):
            builders.append((how, (lambda h: (lambda: build_variant(T, v, h, spec)))(how)))
    if T['k'] in ('seqof', 'setof'):
        for how in ('extend',) + (('reverse', 'rotate') if T['k'] == 'setof' else ()):
            builders.append((how, (lambda h: (lambda: build_variant(T, v, h, spec)))(how)))
    builders.append(('clone', lambda: (U.build_value(T, v, spec).clone(cloneValueFlag=True)
                                       if T['k'] in ('seq', 'set', 'seqof', 'setof', 'choice') else U.build_value(T, v, spec).clone())))
    builders.append(('subtype-clone', lambda: (U.build_value(T, v, spec).subtype(cloneValueFlag=True)
                                               if T['k'] in ('seq', 'set', 'seqof', 'setof', 'choice') else U.build_value(T, v, spec).subtype())))

    def after_reads():
        o = U.build_value(T, v, spec)
        read_only_uses(T, o)
        return o
    builders.append(('after-read-only-uses', after_reads))
    for m in sorted(case['forms']):
        w = bytes(case['forms'][m])
        builders.append(('decoded:' + m, (lambda ww: (lambda: R.DEC['ber'].decode(ww, asn1Spec=spec)[0]))(w)))
    labels, sts, ders, cers = [], [], [], []
    for label, fn in builders:
        st, obj = R.guarded(fn, seconds=10)
        if st != 'ok':
            if label.startswith('decoded:'):
                continue                 # the decoder's acceptance of every form is C09's business
            labels.append(label); sts.append('build:' + R.exc_name(obj)); ders.append([]); cers.append([])
            continue
        d = R.lib_encode('der', obj)
        c = R.lib_encode('cer', obj)
        labels.append(label)
        sts.append('ok' if d['st'] == 'ok' and c['st'] == 'ok' else 'raise')
        ders.append(d['wire'])
        cers.append(c['wire'])
    ev = [{'op': 'hist', 'labels': labels, 'sts': sts, 'ders': ders, 'cers': cers}]
    # re-encoding what a DER (CER) decode returns reproduces the input
    for codec, wire in (('der', ders[0]), ('cer', cers[0])):
        if sts[0] != 'ok':
            continue
        r = R.lib_decode(codec, bytes(wire), spec)
        if r['st'] == 'ok' and not r['rest']:
            re = R.lib_encode(codec, r['obj'])
            ev.append({'op': 'same', 'a': re['wire'] if re['st'] == 'ok' else [], 'b': wire, 'codec': codec, 'path': 'decode then re-encode'})
    return trace(case, ev)


# ------------------------------------------------------------------------------------------- C17
def has_kind(T, kinds):
    return bool(P.kinds_in(T) & set(kinds))


def plan_c17(case):
    from pyasn1.codec.native import decoder as nat_dec, encoder as nat_enc
    T, v = case['T'], case['v']
    spec, obj, err = build(case)
    if err:
        return trace(case, [], err)
    ev = []
    # (1) value -> built-in Python objects -> value under the same type (bare-value path: no ANY, reals judged as floats)
    import math as _m
    rf = real_floats(T, v)
    representable = all(_m.isfinite(x) or True for x in rf) and all(
        (x == 0.0) == (i is None) or True for x, i in zip(rf, rf))
    # reals outside the range of a Python float cannot take the native path at all (float() overflows)
    float_ok = real_ok(T, v)
    if not has_kind(T, ['any']) and float_ok:
        d = {'op': 'dec', 'rules': 'native', 'guided': True, 'inp': [], 'why': 'own', 'tail': [], 'v': {'nul': 0},
             'proj': 'na', 'rest': [], 'exc': '', 'src': 0, 'via': 'native'}
        st, r = R.guarded(lambda: nat_dec.decode(nat_enc.encode(obj), asn1Spec=spec), seconds=10)
        if st == 'ok':
            d['st'] = 'ok'
            try:
                d['v'] = U.project(T, r)
                d['proj'] = 'ok'
            except Exception as e:
                d['proj'] = 'fail'
                d['exc'] = 'Projection: %s' % e
        else:
            d['st'] = R.classify(r)
            d['exc'] = R.exc_name(r)
        if has_kind(T, ['real']) and d['proj'] == 'ok':
            # reals go through Python floats: compare as floats (up to rounding), then hand the acceptor the original
            if real_floats(T, d['v']) == real_floats(T, v) or close(real_floats(T, d['v']), real_floats(T, v)):
                d['v'] = replace_reals(T, d['v'], v)
        ev.append(d)
    # (2) tree of plain Python values + type -> same octets as the value object, for BER, CER and DER
    try:
        py = U.native_py(T, v)
    except Exception as e:
        return trace(case, ev)
    for codec, dm, ch in (('der', True, 0), ('cer', True, 0), ('ber', True, 0), ('ber', False, 2)):
        e = {'op': 'enc', 'codec': codec, 'def': dm, 'chunk': ch, 'path': 'python-value'}
        opts = {'defMode': dm, 'maxChunkSize': ch} if codec == 'ber' else {}
        e.update(R.lib_encode(codec, py, asn1Spec=spec, **opts))
        ev.append(e)
        ref = R.enc_event(codec, obj, dm, ch)
        if ref['st'] == 'ok' and e['st'] == 'ok' and ref['wire'] != e['wire']:
            e['differs_from_value_object'] = True
            ev.append({'op': 'same', 'a': e['wire'], 'b': ref['wire'], 'path': 'python-value vs value object', 'codec': codec})
    return trace(case, ev)


def real_floats(T, v):
    out = []
    k = T['k']
    if k == 'real':
        if v['rk'] == 'zero':
            out.append(0.0)
        elif v['rk'] in ('pinf', 'minf'):
            out.append(float('inf') if v['rk'] == 'pinf' else float('-inf'))
        else:
            try:
                out.append(float(v['m']) * float(v['b']) ** v['e'])
            except OverflowError:
                out.append(float('inf') if v['m'] > 0 else float('-inf'))
    elif k in ('seq', 'set'):
        for cp, c in zip(T['comps'], v['cs']):
            if c['p']:
                out += real_floats(cp['t'], c['v'])
    elif k in ('seqof', 'setof'):
        for x in v['es']:
            out += real_floats(T['of'], x)
    elif k == 'choice':
        out += real_floats(T['alts'][v['alt'] - 1]['t'], v['v'])
    return out


def real_ok(T, v):
    """every finite REAL leaf is representable as a non-zero finite float"""
    k = T['k']
    if k == 'real':
        if v['rk'] != 'fin':
            return True
        try:
            f = float(v['m']) * float(v['b']) ** v['e']
        except OverflowError:
            return False
        import math
        return math.isfinite(f) and f != 0.0 and abs(v['e']) < 300
    if k in ('seq', 'set'):
        return all(real_ok(cp['t'], c['v']) for cp, c in zip(T['comps'], v['cs']) if c['p'])
    if k in ('seqof', 'setof'):
        return all(real_ok(T['of'], x) for x in v['es'])
    if k == 'choice':
        return real_ok(T['alts'][v['alt'] - 1]['t'], v['v'])
    return True


def close(a, b):
    import math
    return len(a) == len(b) and all(x == y or (math.isfinite(x) and math.isfinite(y) and abs(x - y) <= 1e-12 * max(abs(x), abs(y)))
                                    for x, y in zip(a, b))


def replace_reals(T, got, want):
    k = T['k']
    if k == 'real':
        return want
    if k in ('seq', 'set'):
        return {'cs': [{'p': True, 'v': replace_reals(cp['t'], g['v'], w['v'])} if g['p'] and w['p'] else g
                       for cp, g, w in zip(T['comps'], got['cs'], want['cs'])]}
    if k in ('seqof', 'setof') and len(got['es']) == len(want['es']):
        return {'es': [replace_reals(T['of'], g, w) for g, w in zip(got['es'], want['es'])]}
    if k == 'choice' and got['alt'] == want['alt']:
        return {'alt': got['alt'], 'v': replace_reals(T['alts'][got['alt'] - 1]['t'], got['v'], want['v'])}
    return got


# ------------------------------------------------------------------------------------------- configs
def cfg(tier, **over):
    q = dict(kinds=ALL_SCALARS, tagnums=[0, 31], classes=[2], maxstack=1, shapes=ALL_SHAPES, pool=1,
             modes=['der', 'cer'])
    # thorough: three types per pool position, tag stacks of depth 2 over {0, 31, 128} x {APPLICATION, CONTEXT} x {implicit, explicit}
    t = dict(q, tagnums=[0, 31, 128], classes=[1, 2], maxstack=2, pool=3)
    c = dict(q if tier == 'quick' else t)
    c.update(over.get(tier, {}))
    c.update({k: v for k, v in over.items() if k not in ('quick', 'thorough')})
    return c


PROPS = {
    'C01': dict(plan=plan_c01, clauses={'EncRefused', 'Rejected', 'NotAValue', 'ValueDiffers', 'RestDiffers', 'Crash'},
                cfg=lambda tier: cfg(tier, modes=['der'], quick=dict(tagnums=[0, 31, 128], classes=[1, 2]),
                                     thorough=dict(tagnums=[0, 31, 128], classes=[1, 2], maxstack=2, pool=2)), sizes=True),
    'C02': dict(plan=plan_c02, clauses={'EncRefused', 'Rejected', 'NotAValue', 'ValueDiffers', 'RestDiffers', 'Crash', 'Disagree'},
                cfg=lambda tier: cfg(tier, modes=['der', 'cer']), sizes=True),
    'C03': dict(plan=plan_c03, clauses={'EncRefused', 'DerIdentity', 'CerCanonical', 'RefReads', 'OneTLV', 'Headers'},
                cfg=lambda tier: cfg(tier, modes=['der', 'cer'],
                                     quick=dict(tagnums=[0, 30, 31, 127, 128, 16383, 16384, 2 ** 32], classes=[1, 2, 3]),
                                     thorough=dict(tagnums=[0, 1, 30, 31, 127, 128, 16383, 16384, 2 ** 32, 2 ** 64], classes=[1, 2, 3], pool=3, maxstack=1)),
                sizes=True),
    'C06': dict(plan=plan_c06, clauses={'NotUnderrun', 'Crash'},
                cfg=lambda tier: cfg(tier, modes=['der', 'cer', 'ber_indef', 'ber_indef_c1', 'v_indefdef', 'v_long'],
                                     quick=dict(kinds=['bool', 'int', 'bits', 'octs', 'null', 'oid', 'real', 'utf8', 'enum'],
                                                shapes=['scalar', 'any', 'seqof', 'setof', 'choice', 'deep']),
                                     thorough=dict(pool=1, cuts=True, maxstack=1, tagnums=[0, 30, 31, 128, 2 ** 32], classes=[1, 2, 3])), sizes=False),
    'C07': dict(plan=plan_c07, clauses={'Rejected', 'NotAValue', 'ValueDiffers', 'RestDiffers', 'Crash', 'OneTLV'},
                cfg=lambda tier: cfg(tier, modes=['ber_indef', 'v_indefdef', 'v_nestindef'],
                                     quick=dict(shapes=['scalar', 'any', 'seqof', 'setof', 'choice', 'deep'])), sizes=False),
    'C09': dict(plan=plan_c09, clauses={'Rejected', 'NotAValue', 'ValueDiffers', 'RestDiffers', 'Crash'},
                cfg=lambda tier: cfg(tier, modes=['der', 'cer'] + BER_LIB_MODES + VARIANT_MODES,
                                     thorough=dict(maxstack=1, tagnums=[0, 30, 31, 128, 2 ** 32], classes=[1, 2, 3], pool=3)), sizes=False),
    'C13': dict(plan=plan_c13, clauses={'TagSetDiffers', 'ExplicitUniversal', 'Headers', 'Rejected', 'Accepted', 'Crash',
                                        'EncRefused'},
                cfg=lambda tier: cfg(tier, modes=['der'],
                                     quick=dict(tagnums=[0, 1, 30, 31, 127, 128, 16383, 16384, 2 ** 32], classes=[1, 2, 3],
                                                maxstack=1, shapes=['scalar', 'any', 'seqof', 'choice', 'deep']),
                                     thorough=dict(tagnums=[0, 30, 31, 128, 2 ** 32], classes=[1, 2, 3], maxstack=2,
                                                   kinds=['bool', 'int', 'octs', 'bits', 'null', 'utf8'],
                                                   shapes=['scalar', 'any', 'seqof', 'choice', 'deep'])), sizes=False),
    'C15': dict(plan=plan_c15, clauses={'Accepted', 'Crash'},
                cfg=lambda tier: cfg(tier, modes=['der']), sizes=False),
    'C04': dict(plan=plan_c04, clauses={'EncodableDependsOnHistory', 'DerDependsOnHistory', 'CerDependsOnHistory', 'Disagree',
                                        'DerNotTheCanonicalBytes'},
                cfg=lambda tier: cfg(tier, modes=['der', 'ber_indef', 'ber_def_c1', 'v_long', 'v_indefdef', 'v_perm', 'v_emitdef', 'v_true7f'],
                                     quick=dict(kinds=['bool', 'int', 'bits', 'octs', 'oid', 'real', 'utf8', 'enum', 'null']),
                                     thorough=dict(maxstack=1, tagnums=[0, 30, 31, 128, 2 ** 32], classes=[1, 2, 3], pool=3)), sizes=False),
    'C17': dict(plan=plan_c17, clauses={'EncRefused', 'Rejected', 'NotAValue', 'ValueDiffers', 'Crash', 'Disagree'},
                cfg=lambda tier: cfg(tier, modes=['der']), sizes=False),
    'C16': dict(plan=plan_c16, clauses={'Rejected', 'NotAValue', 'ReencodeRefused', 'ReencodeDiffers', 'LeavesDiffer',
                                        'RestDiffers', 'Crash'},
                cfg=lambda tier: cfg(tier, modes=['der', 'cer', 'v_indefdef', 'v_long']), sizes=False),
}


def run_prop(ctx):
    p = PROPS[ctx.prop]
    with tlc.Scratch(ctx.prop.lower()) as sc:
        cases = P.generate(ctx, sc, p['cfg'](ctx.tier))
        if p['sizes']:
            # the 64 KiB strings only in C03: TLC needs ~20 min per such trace
            for T, v in P.size_cases(not ctx.quick and ctx.prop == 'C03'):
                cases.append({'id': len(cases) + 1, 'T': T, 'v': v, 'forms': {}})
        traces = core.pmap(p['plan'], cases)
        P.codec_common_finish(ctx, sc, cases, traces, clauses=p['clauses'])
        ctx.rule = ('cases = states of the Codec machine (spec/Codec.tla) over the universe of spec/Universe.tla, '
                    'each replayed into pyasn1; every recorded library call is one event judged by '
                    'spec/Trace_Codec.tla; distinct = (type shape, operation, codec/rules, mode, purpose) keys')
        ctx.exhaustive = True
