"""C07 - decoding consumes exactly one encoding and preserves what follows.
One-shot clause: codec_props.plan_c07; streaming clause (one object per encoding, position after each
object = end of that encoding): below."""
import random

from .. import core, tlc, codec_pipeline as P, stream_pipeline as SP, streams as S
from . import codec_props

CLAUSES = {'Crash', 'SpuriousError', 'ObjectNotDelivered', 'NotStopped', 'UnderrunNotReported', 'WrongObject',
           'WrongPosition', 'PollAfterEnd', 'EosNotRaised'}
GEN = dict(kinds=['int', 'octs', 'bits', 'bool', 'null', 'utf8', 'oid', 'real'], tagnums=[0, 31], classes=[2], maxstack=1,
           shapes=['scalar', 'seqof', 'setof', 'choice', 'deep', 'any'], pool=1,
           modes=['der', 'cer', 'ber_indef', 'ber_indef_c1', 'v_indefdef', 'v_long', 'v_nestindef'])


def run(ctx):
    codec_props.run_prop(ctx)
    rnd = random.Random(ctx.seed)
    with tlc.Scratch('c07s') as sc:
        cases = P.generate(ctx, sc, GEN, name='MC_gen_streams', invariants=['TypeOK', 'TailPreserved', 'OneTLV'])
        streams = SP.pick_streams(cases, 40, 60 if ctx.quick else 200, ctx.seed, min_items=2, max_items=4)
        lay = sorted({(tuple(st.ends), 0, True) for st in streams if st.ends[-1] <= 12})[:3]
        SP.check_refinement(ctx, sc, lay)

        def jobs_of(st):
            n = len(st.data)
            plans = [[n], [1] * n]
            plans += [[e - (st.ends[i - 1] if i else 0) for i, e in enumerate(st.ends)]]          # item by item
            for _ in range(6 if ctx.quick else 20):
                cuts = sorted(rnd.sample(range(1, n), min(n - 1, rnd.randint(1, 5))))
                plans.append([b - a for a, b in zip([0] + cuts, cuts + [n])])
            for kind in ('K3', 'K4'):
                for parts in plans:
                    yield kind, parts, True, 0, n
                    yield kind, parts, False, 1, n
        traces, meta = SP.run_streams(ctx, streams, jobs_of)
        # streams much larger than the read-ahead buffer of the seek-back wrapper: the position after each object still
        # is the end of its encoding, one object per encoding (sampled arrival plans)
        from .c05 import big_streams
        big = big_streams(ctx, first_sid=len(streams) + 1)

        def big_jobs(st):
            n = len(st.data)
            for kind in ('K3', 'K4'):
                yield kind, [n], True, 0, n
                for _ in range(1 if ctx.quick else 4):
                    parts, left = [], n
                    while left:
                        k = min(left, rnd.choice([1, 7, 100, 1000, 3000, 8192, 8193]))
                        parts.append(k)
                        left -= k
                    yield kind, parts, rnd.random() < 0.5, 0, n
        t3, m3 = SP.run_streams(ctx, big, big_jobs)
        for t in t3:
            t['id'] += len(traces)
        traces += t3
        meta.update({k + len(traces) - len(t3): v for k, v in m3.items()})
        t2, m2 = SP.run_k2_streams(ctx, streams, first_id=len(traces), limit=20)
        traces += t2
        meta.update(m2)
        SP.finish_streams(ctx, sc, traces, meta, clauses=CLAUSES, name='strace_pos')
        ctx.rule += ('; streaming clause: streams of 2..4 encodings back to back, whole / octet-wise / item-wise / random '
                     'arrival plans, kinds K3, K4, K2, and two streams much larger than 8 KiB (sampled plans): one object per encoding and stream position after each object = '
                     'end of that encoding (K3: raw position, K2: BytesIO.tell), judged by spec/Trace_Stream.tla')
