"""C20 - time values convert to and from datetime without changing the instant; canonical time encoders."""
import calendar
import datetime
import itertools
import json
import os

from pyasn1 import error
from pyasn1.codec.cer import encoder as cer_enc
from pyasn1.codec.der import encoder as der_enc
from pyasn1.type import useful

from .. import core, tlc, codec_run as R

KIND = {'gentime': useful.GeneralizedTime, 'utctime': useful.UTCTime}
OFFSETS = [None, 0, 1, -1, 30, -30, 60, -60, 90, -90, 330, -330, 840, -840]
NAIVE = 9999


def fields(dt):
    off = NAIVE if dt.utcoffset() is None else int(dt.utcoffset().total_seconds() // 60)
    return [dt.year, dt.month, dt.day, dt.hour, dt.minute, dt.second, dt.microsecond // 1000, off]


def rt_events(quick):
    evs = []
    for kind in ('gentime', 'utctime'):
        years = [1, 999, 1000, 1969, 1999, 2000, 2049, 2068, 9999] if kind == 'gentime' else [1969, 1999, 2000, 2049, 2068]
        # every millisecond digit pattern over {0, 1, 9} (27) plus a few round ones
        uss = sorted({(a * 100 + b * 10 + c) * 1000 for a in (0, 1, 9) for b in (0, 1, 9) for c in (0, 1, 9)} | {5000, 50000, 120000}) if kind == 'gentime' else [0]
        days = lambda y: ((1, 1), (2, 29 if calendar.isleap(y) else 28), (12, 31))
        times = ((0, 0, 0), (23, 59, 59), (12, 30, 15))
        offsets = OFFSETS
        if not quick:
            # thorough: every whole-quarter-hour offset between -14:00 and +14:00 plus odd minutes, more years, month ends,
            # every millisecond digit pattern over {0, 1, 9}
            years = sorted(set(years + [2, 10, 99, 100, 1582, 1900, 1970, 2024, 2038, 2100, 9998])) if kind == 'gentime' else list(range(1969, 2069, 7)) + [1999, 2000, 2049, 2068]   # the 2-digit year window of UTCTime
            uss = sorted({(a * 100 + b * 10 + c) * 1000 for a in (0, 1, 9) for b in (0, 1, 9) for c in (0, 1, 9)}) if kind == 'gentime' else [0]
            days = lambda y: tuple((m, calendar.monthrange(y, m)[1]) for m in range(1, 13)) + ((1, 1), (3, 1))
            times = ((0, 0, 0), (23, 59, 59), (12, 30, 15), (0, 0, 59), (23, 0, 0))
            offsets = [None] + sorted(set(list(range(-14 * 60, 14 * 60 + 1, 15)) + [1, -1, 59, -59, 61, 839, -839, 330, 345, 765]))
        for y in years:
            for (mo, d) in days(y):
                for (h, mi, s) in times:
                    for us in uss:
                        for off in offsets:
                            if not quick and off not in OFFSETS and (y * 31 + mo * 7 + d + h + us // 1000 + (off or 0)) % 5:
                                continue            # the extra offsets on a deterministic fifth of the grid
                            tz = None if off is None else datetime.timezone(datetime.timedelta(minutes=off))
                            try:
                                dt = datetime.datetime(y, mo, d, h, mi, s, us, tzinfo=tz)
                                dt.utctimetuple() if tz else None
                            except (ValueError, OverflowError):
                                continue
                            e = {'op': 'rt', 'kind': kind, 'in': fields(dt), 'out': [0] * 8, 'st': 'raise', 'exc': '', 'text': ''}
                            st, r = R.guarded(lambda: KIND[kind].fromDateTime(dt), seconds=5)
                            if st == 'ok':
                                e['text'] = str(r)
                                st2, r2 = R.guarded(lambda: r.asDateTime, seconds=5)
                                if st2 == 'ok':
                                    e['st'] = 'ok'
                                    e['out'] = fields(r2)
                                else:
                                    e['exc'] = 'asDateTime: ' + type(r2).__name__
                            else:
                                e['exc'] = 'fromDateTime: ' + type(r).__name__
                            evs.append(e)
    return evs


def time_strings(quick=True):
    out = []
    fr = ['', '.0', '.5', '.50', '.05', '.102', '.010', '.100', '.999', '.0001', '.123456', '.000000', ',5', ',050',
          '.5000', '.1200', '.1230', '.12300', '.9990']
    if not quick:
        import itertools
        fr += ['.' + ''.join(t) for n in range(1, 7) for t in itertools.product('019', repeat=n)]
        fr += [',' + ''.join(t) for n in range(1, 4) for t in itertools.product('05', repeat=n)]
        fr = sorted(set(fr))
    for t in ('12', '1201', '120112', '000000', '235959'):
        for f in fr:
            for z in ('Z', '', '+0130', '-0500', '+01', '-14'):
                out.append(('gentime', '20170801' + t + f + z))
    for d in ('00010101', '09991231', '99991231'):
        out.append(('gentime', d + '120112Z'))
        out.append(('gentime', d + '120112.5Z'))
    for t in ('1201', '120112', '0000', '235959'):
        for z in ('Z', '+0130', '-0500', ''):
            out.append(('utctime', '170801' + t + z))
    out += [('utctime', '17080112Z'), ('utctime', '170801120112.5Z'), ('gentime', '2017080112011Z'), ('gentime', '20170801120112.Z')]
    return out


def enc_events(quick=True):
    evs = []
    for kind, text in time_strings(quick):
        for codec, enc in (('cer', cer_enc), ('der', der_enc)):
            e = {'op': 'enc', 'kind': kind, 'codec': codec, 'text': list(text.encode()), 'st': 'raise', 'out': [], 'exc': ''}
            st, r = R.guarded(lambda: enc.encode(KIND[kind](text)), seconds=5)
            if st == 'ok':
                b = bytes(r)
                if b[0] in (0x17, 0x18) and b[1] < 0x80 and len(b) == b[1] + 2:
                    e['st'] = 'ok'
                    e['out'] = list(b[2:])
                else:
                    e['st'] = 'ok'
                    e['out'] = list(b)          # not a primitive short-form TLV: will fail the canonical clause
            else:
                e['exc'] = type(r).__name__
                if not isinstance(r, error.PyAsn1Error):
                    e['st'] = 'crash'
            evs.append(e)
    return evs


def run(ctx):
    with tlc.Scratch('c20') as sc:
        evs = rt_events(ctx.quick) + enc_events(ctx.quick)
        traces = [{'id': i // 500 + 1, 'ev': evs[i:i + 500]} for i in range(0, len(evs), 500)]
        selftest = {'id': 10 ** 8, 'ev': [
            {'op': 'rt', 'kind': 'gentime', 'in': [2000, 1, 1, 0, 0, 0, 0, 60], 'out': [2000, 1, 1, 0, 0, 0, 0, 0], 'st': 'ok', 'exc': '', 'text': ''},
            {'op': 'enc', 'kind': 'gentime', 'codec': 'der', 'text': list(b'20170801120112.50Z'), 'st': 'ok', 'out': list(b'20170801120112.50Z'), 'exc': ''}]}
        try:
            printed = tlc.run_traces(ctx, sc, 'Trace_Time', traces + [selftest], 'time acceptor', nev=lambda t: len(t['ev']),
                                     max_events=50000)
        except tlc.AcceptorFailure as e:
            raise core.Machinery('time acceptor failed: %s' % e)
        class _R:          # noqa
            pass
        r = _R()
        r.printed = printed
        rej = [p for p in r.printed if isinstance(p, list) and len(p) == 4 and p[0] == 'REJECT']
        if {(p[2], p[3]) for p in rej if p[1] == 10 ** 8} != {(1, 'OffsetChanged'), (2, 'NotCanonical')}:
            raise core.Machinery('time acceptor self-test failed: %s' % [p for p in rej if p[1] == 10 ** 8])
        ctx.extra['acceptor_selftest'] = 'changed offset and non-canonical output injected, both rejected'
        bad = 0
        for q in r.printed:
            # outputs the model reproduces exactly under the named deviations of the time encoder
            if isinstance(q, list) and len(q) == 4 and q[0] == 'DEV' and q[1] != 10 ** 8:
                e = traces[q[1] - 1]['ev'][q[2] - 1]
                text = bytes(e['text']).decode()
                ctx.report('deviation %s: %s.encode(%s(%r)) -> %r' % (sorted(q[3]), e['codec'], e['kind'], text, bytes(e['out']).decode('latin-1')),
                           {'clause': 'NotCanonical', 'op': 'enc', 'kind': e['kind'], 'devs': sorted(q[3])},
                           {'prop': 'C20', 'event': e, 'clause': 'deviation', 'devs': sorted(q[3])})
                bad += 1
        for _, tid, j, clause in rej:
            if tid == 10 ** 8:
                continue
            e = traces[tid - 1]['ev'][j - 1]
            if e['op'] == 'rt':
                off = e['in'][7]
                f = {'clause': clause, 'op': 'rt', 'kind': e['kind'], 'exc': e['exc'],
                     'offset_sign': 'naive' if off == NAIVE else 'zero' if off == 0 else 'neg' if off < 0 else 'pos',
                     'whole_hours': off != NAIVE and off % 60 == 0, 'year_lt_1000': e['in'][0] < 1000}
                what = '%s: %s.fromDateTime(%s).asDateTime -> %s (text %r) %s' % (clause, e['kind'], e['in'], e['out'], e['text'], e['exc'])
            else:
                text = bytes(e['text']).decode()
                frac = text.split('.')[1].rstrip('Z') if '.' in text else ''
                f = {'clause': clause, 'op': 'enc', 'kind': e['kind'], 'codec': e['codec'], 'exc': e['exc'], 'st': e['st'],
                     'interior_zero': '0' in frac.rstrip('0'), 'has_fraction': bool(frac), 'year_lt_1000': text[:1] == '0',
                     'long_fraction': len(frac) > 3, 'fraction_all_zero': bool(frac) and set(frac) == {'0'},
                     'zeros_past_4th_digit': len(frac) > 4 and frac.endswith('0')}
                what = '%s: %s.encode(%s(%r)) -> %s %r %s' % (clause, e['codec'], e['kind'], text, e['st'], bytes(e['out']).decode('latin-1'), e['exc'])
            ctx.report(what, f, {'prop': 'C20', 'event': e, 'clause': clause})
            bad += 1
        ctx.traces += len(evs) - bad
        ctx.evaluations += len(evs)
        for e in evs:
            if e['op'] == 'rt':
                ctx.keys.add(('rt', e['kind'], e['in'][0], e['in'][6], e['in'][7]))
            else:
                ctx.keys.add(('enc', e['kind'], e['codec'], bytes(e['text']).decode()[8:]))
        ctx.sample({k: evs[7][k] for k in ('op', 'kind', 'in', 'out', 'st', 'text')})
        ctx.sample({'op': 'enc', 'kind': evs[-9]['kind'], 'codec': evs[-9]['codec'], 'text': bytes(evs[-9]['text']).decode(),
                    'st': evs[-9]['st'], 'out': bytes(evs[-9]['out']).decode('latin-1')})
    ctx.rule = ('round trips over the datetime grid (years x month/day corners x time corners x milliseconds x 14 offsets) for '
                'GeneralizedTime and UTCTime; CER/DER encoding of every string of the X.680 grammars in the stated bounds; each '
                'event judged by spec/Trace_Time.tla (X.680 reader and canonical-form predicate of spec/Time.tla)')
    ctx.exhaustive = True
