"""C09 - every valid BER form of a value decodes to that value (codec_props.plan_c09), plus the component maps the
SEQUENCE/SET decoder relies on (spec/NamedTypes.tla replayed into pyasn1.type.namedtype)."""
import json
import os

from pyasn1 import error
from pyasn1.type import namedtype, tag, univ

from .. import core, tlc, tlaval
from . import codec_props


def ttag(n):
    return tag.Tag(tag.tagClassContext, tag.tagFormatSimple, n)


def replay_list(cs):
    """one component list of the generator -> divergences between pyasn1.type.namedtype and the model's maps"""
    out = []
    comps = []
    for i, c in enumerate(cs):
        t = univ.Integer().subtype(implicitTag=ttag(c['tag']))
        name = 'f%d' % i
        comps.append(namedtype.NamedType(name, t) if c['mode'] == 'req' else
                     namedtype.OptionalNamedType(name, t) if c['mode'] == 'opt' else namedtype.DefaultedNamedType(name, t.clone(1)))
    nts = namedtype.NamedTypes(*comps)
    n = len(cs)

    def window(i):        # the model's Window, recomputed here only to phrase messages; the verdicts come from `want`
        w = [i]
        while cs[w[-1]]['mode'] != 'req' and w[-1] + 1 < n:
            w.append(w[-1] + 1)
        return w
    return nts, out


def check_state(s):
    cs, want = s['cs'], s['want']
    nts, out = replay_list(cs)
    n = len(cs)
    tagset = lambda t: univ.Integer().subtype(implicitTag=ttag(t)).tagSet
    try:
        if sorted(nts.requiredComponents) != [i - 1 for i in want['required']]:
            out.append('requiredComponents %s, model %s' % (sorted(nts.requiredComponents), want['required']))
        if bool(nts.hasOptionalOrDefault) != want['skippable']:
            out.append('hasOptionalOrDefault %s, model %s' % (nts.hasOptionalOrDefault, want['skippable']))
        for i in range(n):
            got = sorted(ts[-1].tagId for ts in nts.getTagMapNearPosition(i).presentTypes)
            if got != sorted(want['near'][i]):
                out.append('getTagMapNearPosition(%d) tags %s, model %s' % (i, got, sorted(want['near'][i])))
            for t in range(1, want['ntags'] + 1):
                exp = want['nearpos'][i][t - 1]            # 0 = tag not in the window
                try:
                    p = nts.getPositionNearType(tagset(t), i)
                    if exp == 0 or p != exp - 1:
                        out.append('getPositionNearType(tag %d, %d) = %s, model %s' % (t, i, p, exp - 1 if exp else 'not in window'))
                except error.PyAsn1Error:
                    if exp != 0:
                        out.append('getPositionNearType(tag %d, %d) raised, model %d' % (t, i, exp - 1))
        for c_i, c in enumerate(cs):
            if nts.getPositionByType(tagset(c['tag'])) != c_i:
                out.append('getPositionByType(tag %d) wrong' % c['tag'])
        if sorted(ts[-1].tagId for ts in nts.tagMapUnique.presentTypes) != sorted(c['tag'] for c in cs):
            out.append('tagMapUnique keys differ')
        # addressing by name and by position (the names are f0, f1, ... in declaration order)
        if len(nts) != n or list(nts) != ['f%d' % i for i in range(n)] or sorted(nts.keys()) != ['f%d' % i for i in range(n)] or \
                [nt.name for nt in nts.namedTypes] != ['f%d' % i for i in range(n)]:
            out.append('iteration does not follow the declaration order / keys() is not the set of names')
        for i in range(n):
            if nts.getPositionByName('f%d' % i) != i or nts.getNameByPosition(i) != 'f%d' % i or ('f%d' % i) not in nts:
                out.append('name <-> position maps wrong at %d' % i)
            if nts.getTypeByPosition(i).tagSet != tagset(cs[i]['tag']):
                out.append('getTypeByPosition(%d) has other tags' % i)
        for bad in ('nope', 'f%d' % n):
            try:
                nts.getPositionByName(bad)
                out.append('getPositionByName(%r) answered' % bad)
            except error.PyAsn1Error:
                pass
            if bad in nts:
                out.append('%r reported as a member' % bad)
        if nts.minTagSet[-1].tagId != want['mintag']:
            out.append('minTagSet %s, model %s' % (nts.minTagSet, want['mintag']))
    except Exception as e:   # noqa
        out.append('crash %s: %s' % (type(e).__name__, e))
    return out


def namedtypes_part(ctx, sc):
    maxlen = 4 if ctx.quick else 5
    ntags = 4 if ctx.quick else 5
    with open(sc.file('MC_nt.tla'), 'w') as f:
        f.write('''---- MODULE MC_nt ----
EXTENDS NamedTypes
VARIABLE want
MCInit == Init /\\ want = [required |-> Required(cs), skippable |-> HasSkippable(cs), ntags |-> NTags, mintag |-> MinTag(cs),
                         near |-> [i \\in 1..Len(cs) |-> NearTags(cs, i)],
                         nearpos |-> [i \\in 1..Len(cs) |-> [t \\in 1..NTags |-> IF t \\in NearTags(cs, i) THEN NearPos(cs, t, i) ELSE 0]]]
MCNext == UNCHANGED <<cs, want>>
====
''')
    with open(sc.file('MC_nt.cfg'), 'w') as f:
        f.write('INIT MCInit\nNEXT MCNext\nCONSTANT MaxLen = %d\nCONSTANT NTags = %d\nINVARIANT WindowStartsAtI\n'
                'INVARIANT WindowIsAnInterval\nINVARIANT WindowEndsAtFirstMandatory\nCHECK_DEADLOCK FALSE\n' % (maxlen, ntags))
    dump = sc.file('nt.dump')
    r = tlc.run(sc.file('MC_nt.tla'), sc.file('MC_nt.cfg'), sc, dump=dump, timeout=1800)
    ctx.add_tlc('NamedTypes generator (component lists up to length %d over %d tags)' % (maxlen, ntags), r)
    if not r.ok:
        raise core.Machinery('NamedTypes model run failed: %s %s\n%s' % (r.violated, r.errors[:2], r.out[-1500:]))
    states = list(tlaval.parse_dump(open(dump).read()))
    os.remove(dump)
    for s in states:
        s['want']['required'] = sorted(s['want']['required'])
        s['want']['near'] = [sorted(x) for x in s['want']['near']]
    res = core.pmap(check_state, states, chunksize=256)
    bad = 0
    for s, divs in zip(states, res):
        ctx.evaluations += 1
        ctx.keys.add(('namedtypes', tuple((c['mode'], c['tag']) for c in s['cs'])))
        if divs:
            bad += 1
            ctx.report('component maps of %s: %s' % ([(c['mode'], c['tag']) for c in s['cs']], '; '.join(divs[:3])),
                       {'clause': 'ComponentMaps', 'part': 'namedtypes', 'n': len(s['cs'])},
                       {'prop': 'C09', 'kind': 'namedtypes', 'comps': s['cs'], 'model': s['want'], 'divergences': divs})
    ctx.traces += len(states) - bad
    flipped = json.loads(json.dumps(states[-1]))
    flipped['want']['near'][0] = []
    if not check_state(flipped):
        raise core.Machinery('namedtypes replay self-test failed')
    ctx.extra['namedtypes'] = '%d component lists replayed into pyasn1.type.namedtype (self-test: an altered model window is noticed)' % len(states)
    ctx.sample({'component list': states[len(states) // 2]['cs'], 'model maps': states[len(states) // 2]['want']})


def run(ctx):
    codec_props.run_prop(ctx)
    with tlc.Scratch('c09nt') as sc:
        namedtypes_part(ctx, sc)
    ctx.rule += ('; plus every list of up to 4 (quick) / 5 (thorough) components with modes {mandatory, OPTIONAL, DEFAULT} and '
                 'distinct tags generated by spec/NamedTypes.tla, replayed into NamedTypes.getTagMapNearPosition / '
                 'getPositionNearType / requiredComponents / tagMapUnique / minTagSet')
