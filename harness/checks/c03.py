"""C03 - encoder output equals the X.690 encoding computed by the independent reference."""
import json

from .. import core, tlc, codec_pipeline as P, codec_run as R
from .. import universe as U

QUICK = dict(kinds=['bool', 'int', 'enum', 'bits', 'octs', 'null', 'oid', 'real', 'utf8', 'numeric', 'printable',
                    't61', 'videotex', 'ia5', 'graphic', 'visible', 'general', 'universal', 'bmp', 'objdesc',
                    'gentime', 'utctime'],
             tagnums=[0, 30, 31, 127, 128, 16383, 16384, 2 ** 32], classes=[1, 2, 3], maxstack=1,
             shapes=['scalar', 'any', 'seq', 'set', 'seqof', 'setof', 'choice', 'deep'], pool=1,
             modes=['der', 'cer'])
THOROUGH = dict(QUICK, tagnums=[0, 1, 30, 31, 127, 128, 16383, 16384, 2 ** 32, 2 ** 64], pool=3, maxstack=1)

BER_MODES = [(True, 0), (False, 0), (True, 2), (False, 3)]


def plan(case):
    T, v = case['T'], case['v']
    try:
        obj = U.build_value(T, v)
    except Exception as e:
        return {'id': case['id'], 'T': T, 'v': v, 'ev': [], 'build_error': '%s: %s' % (type(e).__name__, e)}
    ev = [R.enc_event('der', obj), R.enc_event('cer', obj)]
    for d, c in BER_MODES:
        ev.append(R.enc_event('ber', obj, d, c))
    return {'id': case['id'], 'T': T, 'v': v, 'ev': ev}


def run(ctx):
    cfg = QUICK if ctx.quick else THOROUGH
    with tlc.Scratch('c03') as sc:
        cases = P.generate(ctx, sc, cfg)
        for T, v in P.size_cases(not ctx.quick):
            cases.append({'id': len(cases) + 1, 'T': T, 'v': v, 'forms': {}})
        traces = core.pmap(plan, cases)
        P.codec_common_finish(ctx, sc, cases, traces)
