"""C03 - see codec_props.py"""
from .codec_props import run_prop as run
