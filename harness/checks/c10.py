"""C10 - whatever a decoder accepts is a well-formed, re-encodable value of the type."""
import copy
import itertools
import json
import random

from pyasn1.type import constraint, namedtype, univ

from .. import core, tlc, codec_pipeline as P, codec_run as R
from .. import universe as U
from .c14 import build as build_constraint
from . import compcons

I = U.int_term


def rng(lo, hi):
    return {'op': 'range', 'lo': lo, 'hi': hi}


def size(lo, hi):
    return {'op': 'size', 'lo': lo, 'hi': hi}


def sc(kind, tags=(), cons=None):
    t = {'k': kind, 'tags': list(tags)}
    if cons:
        t['cons'] = cons
    return t


def comp(name, t, mode='req', dflt=None):
    c = {'name': name, 't': t, 'mode': mode}
    if mode == 'def':
        c['dflt'] = dflt
    return c


TYPES = {
    'rec': {'k': 'seq', 'tags': [], 'comps': [comp('a', sc('int', cons=rng(1, 5))), comp('b', sc('octs', cons=size(1, 2)), 'opt'),
                                             comp('c', sc('bool', [P.op('I', 2, 2)]), 'def', {'b': False})]},
    'list': {'k': 'seqof', 'tags': [], 'of': sc('int', cons=rng(0, 3)), 'sizec': {'lo': 1, 'hi': 2}},
    'set': {'k': 'set', 'tags': [], 'comps': [comp('x', sc('int', [P.op('I', 2, 0)], cons={'op': 'or', 'a': rng(0, 1), 'b': {'op': 'single', 'vals': [7]}})),
                                             comp('y', sc('octs', [P.op('I', 2, 1)])), comp('z', sc('null'), 'opt')]},
    'bag': {'k': 'setof', 'tags': [], 'of': sc('octs', cons=size(0, 1)), 'sizec': {'lo': 0, 'hi': 2}},
    'pick': {'k': 'choice', 'tags': [], 'alts': [{'name': 'i', 't': sc('int', cons=rng(0, 10))}, {'name': 's', 't': sc('octs')},
                                                 {'name': 'l', 't': {'k': 'seqof', 'tags': [P.op('I', 2, 5)], 'of': sc('bool'), 'sizec': {'lo': 1, 'hi': 3}}}]},
    'flags': {'k': 'seq', 'tags': [], 'comps': [comp('f', sc('bits', cons=size(4, 4))),
                                               comp('g', sc('bits', [P.op('I', 2, 0)], cons=size(0, 8)), 'def', {'bits': [0, 0, 0, 0]})]},
    'nest': {'k': 'seq', 'tags': [], 'comps': [comp('h', {'k': 'seqof', 'tags': [], 'of': sc('int', cons=rng(0, 9)), 'sizec': {'lo': 0, 'hi': 1}}),
                                              comp('t', sc('octs', [P.op('E', 2, 0)], cons=size(2, 2)), 'opt')]},
}


def strip(T):
    """the neighbouring type: same shape, no constraints"""
    T = copy.deepcopy(T)
    for t in P.walk_types(T):
        t.pop('cons', None)
        t.pop('sizec', None)
    return T


def ctype(T):
    """pyasn1 schema with the constraints of the term"""
    k = T['k']
    if k in ('seq', 'set'):
        nts = []
        for cp in T['comps']:
            ct = ctype(cp['t'])
            if cp['mode'] == 'req':
                nts.append(namedtype.NamedType(cp['name'], ct))
            elif cp['mode'] == 'opt':
                nts.append(namedtype.OptionalNamedType(cp['name'], ct))
            else:
                nts.append(namedtype.DefaultedNamedType(cp['name'], ct.clone(U.scalar_py(cp['t'], cp['dflt']))))
        obj = U.KIND_CLASS[k](componentType=namedtype.NamedTypes(*nts))
    elif k in ('seqof', 'setof'):
        obj = U.KIND_CLASS[k](componentType=ctype(T['of']))
        if 'sizec' in T:
            obj = obj.subtype(subtypeSpec=constraint.ValueSizeConstraint(T['sizec']['lo'], T['sizec']['hi']))
    elif k == 'choice':
        obj = univ.Choice(componentType=namedtype.NamedTypes(*[namedtype.NamedType(a['name'], ctype(a['t'])) for a in T['alts']]))
    else:
        obj = U.KIND_CLASS[k]()
        if 'cons' in T:
            obj = obj.subtype(subtypeSpec=build_constraint(T['cons']))
    for op in T.get('tags', []):
        from pyasn1.type import tag
        t = tag.Tag(U.CLASS_BITS[op['c']], tag.tagFormatSimple, U.unbig(op['n']))
        obj = obj.subtype(explicitTag=t) if op['m'] == 'E' else obj.subtype(implicitTag=t)
    return obj


def candidate_values(name):
    """values of the unconstrained neighbour: inside and just outside every constraint, missing / surplus members"""
    P_, A = (lambda v: {'p': True, 'v': v}), {'p': False}
    o = lambda *b: {'o': list(b)}
    if name == 'rec':
        return [{'cs': [P_(I(a)), b, c]} for a in (0, 1, 5, 6, -1, 300) for b in (A, P_(o()), P_(o(1)), P_(o(1, 2)), P_(o(1, 2, 3)))
                for c in (A, P_({'b': True}))]
    if name == 'list':
        return [{'es': [I(x) for x in xs]} for xs in ([], [0], [3], [4], [-1], [1, 2], [1, 2, 3], [0, 9], [2, 2, 2, 2])]
    if name == 'set':
        return [{'cs': [P_(I(x)), P_(o(9)), z]} for x in (0, 1, 2, 7, 8, -1) for z in (A, P_({'nul': 0}))]
    if name == 'bag':
        return [{'es': [o(*x) for x in xs]} for xs in ([], [[]], [[1]], [[1, 2]], [[1], [2]], [[1], [2], [3]], [[], [1, 1]])]
    if name == 'pick':
        return ([{'alt': 1, 'v': I(x)} for x in (0, 10, 11, -1)] + [{'alt': 2, 'v': o(1, 2)}] +
                [{'alt': 3, 'v': {'es': [{'b': True}] * n}} for n in (0, 1, 3, 4)])
    if name == 'flags':
        bits = lambda *b: P_({'bits': list(b)})
        # the same number with other numbers of leading zero bits, inside and outside SIZE (4) / SIZE (0..8)
        return [{'cs': [f, g]} for f in (bits(0, 1, 0, 1), bits(0, 0, 0, 0, 0, 1, 0, 1), bits(1, 0, 1), bits(0, 0, 0, 0), bits(0, 0, 0, 0, 0, 0, 0, 0),
                                          bits(), bits(1, 1, 1, 1), bits(0, 1, 1, 1, 1))
                for g in (A, bits(0, 0, 0, 0), bits(0, 0, 0, 0, 0, 0, 0, 0, 0), bits(1), bits(0, 0, 0, 0, 0, 0, 0, 0, 1))]
    if name == 'nest':
        return [{'cs': [P_({'es': [I(x) for x in xs]}), t]} for xs in ([], [0], [9], [10], [1, 2])
                for t in (A, P_(o(1, 2)), P_(o(1)), P_(o(1, 2, 3)))]
    raise KeyError(name)


def inputs_for(name, rnd, nmut):
    T = TYPES[name]
    T0 = strip(T)
    spec0 = U.build_type(T0)
    outs = []
    for v in candidate_values(name):
        try:
            obj = U.build_value(T0, v, spec0)
        except Exception:
            continue
        for codec, dm, ch in (('der', True, 0), ('cer', True, 0), ('ber', False, 0), ('ber', True, 1)):
            r = R.enc_event(codec, obj, dm, ch)
            if r['st'] != 'ok':
                continue
            w = r['wire']
            outs.append((codec, w, 'neighbour'))
            for _ in range(nmut):
                m = list(w)
                i = rnd.randrange(len(m))
                kind = rnd.randrange(4)
                if kind == 0:
                    m[i] ^= 1 << rnd.randrange(8)
                elif kind == 1:
                    del m[i]
                elif kind == 2:
                    m.insert(i, rnd.choice([0, 1, 2, 4, 0x30, 0x80, 0xff]))
                else:
                    m[i] = rnd.choice([0, 1, 2, 3, 4, 5, 0x30, 0x31, 0x80, 0x81, 0xa0, 0xff])
                outs.append((codec, m, 'mutation'))
            if nmut > 100:
                # thorough: every single bit flip, deletion, insertion, replacement and truncation as well
                from .c08 import mutations
                for m in mutations(w, rnd, 10 ** 9):
                    outs.append((codec, m, 'mutation'))
    # members in the wrong place: missing mandatory, duplicated, surplus
    return outs


def run_type(job):
    name, seed, nmut = job
    rnd = random.Random(seed)
    T = TYPES[name]
    spec = ctype(T)
    ev = []
    seen = set()
    for rules, data, origin in inputs_for(name, rnd, nmut):
        key = (rules, bytes(data))
        if key in seen:
            continue
        seen.add(key)
        e = {'op': 'wt', 'rules': rules, 'inp': list(data), 'origin': origin, 'proj': 'na', 'v': {'nul': 0}, 'reenc_st': 'na',
             'redec_st': 'na', 'v2': {'nul': 0}, 'exc': ''}
        r = R.lib_decode(rules, bytes(data), spec)
        e['st'] = r['st']
        e['exc'] = r.get('exc', '')
        if r['st'] == 'ok':
            obj = r['obj']
            try:
                e['v'] = U.project(T, obj)
                e['proj'] = 'ok'
            except Exception as ex:
                e['proj'] = 'fail'
                e['exc'] = 'projection: %s' % ex
            if e['proj'] == 'ok':
                re = R.lib_encode(rules, obj)
                e['reenc_st'] = 'ok' if re['st'] == 'ok' else 'raise'
                if re['st'] != 'ok':
                    e['exc'] = 're-encode: ' + re['exc']
                else:
                    r2 = R.lib_decode(rules, bytes(re['wire']), spec)
                    e['redec_st'] = r2['st']
                    if r2['st'] == 'ok':
                        try:
                            e['v2'] = U.project(T, r2['obj'])
                        except Exception as ex:
                            e['redec_st'] = 'unprojectable'
        ev.append(e)
    return {'id': sorted(TYPES).index(name) + 1, 'T': T, 'v': {'nul': 0}, 'ev': ev, 'name': name}


def run(ctx):
    nmut = 25 if ctx.quick else 120
    whole = core.pmap(run_type, [(n, ctx.seed * 1000 + i, nmut) for i, n in enumerate(sorted(TYPES))], procs=6, chunksize=1)
    # one trace record per 2000 events, so that the acceptor can take them in bounded runs
    traces = []
    for t in whole:
        for k in range(0, max(len(t['ev']), 1), 2000):
            traces.append(dict(t, id=t['id'] * 1000 + k // 2000, ev=t['ev'][k:k + 2000]))
    with tlc.Scratch('c10') as sc:
        lt = next(t for t in traces if t['name'] == 'list')
        good = next(e for e in lt['ev'] if e['st'] == 'ok' and e['proj'] == 'ok' and e['redec_st'] == 'ok' and e['v']['es'])
        st = {'id': 10 ** 8, 'T': lt['T'], 'v': {'nul': 0}, 'ev': [dict(good, v2={'es': []})]}
        rejects = P.judge(ctx, sc, traces + [st], name='wt')
        if not any(r[0] == 10 ** 8 for r in rejects):
            raise core.Machinery('acceptor self-test failed')
        ctx.extra['acceptor_selftest'] = 'altered re-decoded value rejected'
        byid = {t['id']: t for t in traces}
        bad = set()
        for tid, idx, clause in rejects:
            if tid >= 10 ** 8:
                continue
            t = byid[tid]
            e = t['ev'][idx - 1]
            f = {'clause': clause, 'type': t['name'], 'rules': e['rules'], 'origin': e['origin'], 'exc': e['exc'].split(':')[0],
                 'kind': t['T']['k'],
                 'oversized_of': clause == 'IllTyped' and _oversized(t['T'], e['v'])}
            ctx.report('%s: decode(%s, asn1Spec=%s) accepted -> %s %s' % (clause, bytes(e['inp']).hex(), t['name'], json.dumps(e['v'])[:160], e['exc']),
                       f, {'prop': 'C10', 'type': t['name'], 'T': t['T'], 'event': e, 'clause': clause})
            bad.add((tid, idx))
        n = sum(len(t['ev']) for t in traces)
        acc = sum(1 for t in traces for e in t['ev'] if e['st'] == 'ok')
        ctx.traces += n - len(bad)
        ctx.evaluations += n
        ctx.extra['inputs_accepted_by_the_decoder'] = acc
        for t in traces:
            for e in t['ev']:
                ctx.keys.add((t['name'], e['rules'], e['origin'], e['st'], len(e['inp'])))
        for t in traces[:2]:
            e = next(x for x in t['ev'] if x['st'] == 'ok')
            ctx.sample({'type': t['name'], 'input': bytes(e['inp']).hex(), 'accepted value': e['v']})
        # component-presence constraints (WITH COMPONENTS) and SIZE under intersection / union / exclusion: spec/CompCons.tla
        compcons.part(ctx, sc, 'C10')
    ctx.rule = ('6 constrained types (value ranges, single values, SIZE of strings and of SEQUENCE OF/SET OF, OPTIONAL/DEFAULT, SET, '
                'CHOICE, nesting); inputs = encodings (DER, CER, BER indefinite, BER chunked) of values of the unconstrained '
                'neighbour type inside and just outside every constraint + random single mutations; every accepted input is '
                'judged by WT of spec/WellTyped.tla, then re-encoded and re-decoded (fixpoint); plus every case of the generator machine '
                'spec/CompCons.tla (WITH COMPONENTS PRESENT/ABSENT on SEQUENCE/SET, SIZE on SEQUENCE OF/SET OF, under and/or/not): a decoder '
                'guided by the constrained type returns only for values inside the denotation, with the same shape, re-encodable')


def _oversized(T, v):
    try:
        if T['k'] in ('seqof', 'setof'):
            if 'sizec' in T and not (T['sizec']['lo'] <= len(v['es']) <= T['sizec']['hi']):
                return True
            return any(_oversized(T['of'], x) for x in v['es'])
        if T['k'] in ('seq', 'set'):
            return any(c['p'] and _oversized(cp['t'], c['v']) for cp, c in zip(T['comps'], v['cs']))
        if T['k'] == 'choice':
            return _oversized(T['alts'][v['alt'] - 1]['t'], v['v'])
    except Exception:
        return False
    return False
