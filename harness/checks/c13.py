"""C13 - tags on the wire are exactly the type's tags (codec_props.plan_c13), plus the tag algebra itself: every history
of tagging operations of spec/Tags.tla replayed into pyasn1.type.tag.TagSet / Asn1Type.subtype / TagMap."""
import json
import os

from pyasn1 import error
from pyasn1.type import tag, tagmap, univ, namedtype

from .. import core, tlc, tlaval
from . import codec_props

CLS = {0: tag.tagClassUniversal, 1: tag.tagClassApplication, 2: tag.tagClassContext, 3: tag.tagClassPrivate}


def mk(t):
    return tag.Tag(CLS[t['c']], tag.tagFormatConstructed if t['k'] else tag.tagFormatSimple, t['n'])


def obs(ts):
    return [[x.tagClass >> 6, 1 if x.tagFormat else 0, int(x.tagId)] for x in ts.superTags]


def base_objects(base):
    """(TagSet built directly, type object carrying it) for a model base"""
    if not base:
        return tag.TagSet(), univ.Any()
    if base[0]['n'] == 2:
        return tag.initTagSet(mk(base[0])), univ.Integer()
    return tag.initTagSet(mk(base[0])), univ.Sequence(componentType=namedtype.NamedTypes())


def replay_state(s):
    out = []
    want = s['want']
    try:
        ts, obj = base_objects(s['base'])
        refused = False
        for op in s['hist']:
            t = mk(op['t'])
            try:
                ts2 = ts.tagImplicitly(t) if op['o'] == 'I' else ts.tagExplicitly(t)
            except error.PyAsn1Error:
                ts2 = None
            try:
                obj2 = obj.subtype(implicitTag=t) if op['o'] == 'I' else obj.subtype(explicitTag=t)
            except error.PyAsn1Error:
                obj2 = None
            if (ts2 is None) != (obj2 is None):
                out.append('TagSet and subtype() disagree on refusing %s' % (op,))
            if ts2 is None or obj2 is None:
                refused = True
                break
            ts, obj = ts2, obj2
        if refused != (not want['ok']):
            out.append('refused=%s, model ok=%s' % (refused, want['ok']))
        if want['ok']:
            for name, x in (('TagSet', ts), ('subtype().tagSet', obj.tagSet)):
                if obs(x) != want['tags']:
                    out.append('%s %s, model %s' % (name, obs(x), want['tags']))
                if len(x) != len(want['tags']):
                    out.append('%s len %d' % (name, len(x)))
            if ts != obj.tagSet or hash(ts) != hash(obj.tagSet):
                out.append('the two constructions are not equal / hash differently')
            # equality ignores the form bit; a different number or class does not compare equal
            if want['tags']:
                flipped = tag.TagSet((), *[tag.Tag(y.tagClass, y.tagFormat ^ 0x20, y.tagId) for y in ts.superTags])
                if flipped != ts:
                    out.append('equality depends on the form bit')
                other = tag.TagSet((), *[tag.Tag(y.tagClass, y.tagFormat, y.tagId + (1 if i == len(ts) - 1 else 0)) for i, y in enumerate(ts.superTags)])
                if other == ts:
                    out.append('equality ignores the tag number')
            # prefix relation
            bts, _ = base_objects(s['base'])
            if bool(bts.isSuperTagSetOf(ts)) != want['base_is_prefix']:
                out.append('base.isSuperTagSetOf(result) = %s, model %s' % (bts.isSuperTagSetOf(ts), want['base_is_prefix']))
            if bool(ts.isSuperTagSetOf(bts)) != want['is_prefix_of_base']:
                out.append('result.isSuperTagSetOf(base) = %s, model %s' % (ts.isSuperTagSetOf(bts), want['is_prefix_of_base']))
            # tag map lookups: present = {result}, skip = {base}, with and without a default
            marker, dflt = univ.Null(), univ.Boolean()
            for has_default, exp in ((True, want['lookup_d']), (False, want['lookup_n'])):
                tm = tagmap.TagMap({ts: marker}, {bts: marker} if bts != ts else {}, dflt if has_default else None)
                for probe, e in zip((ts, bts, tag.initTagSet(tag.Tag(tag.tagClassPrivate, 0, 999))), exp):
                    try:
                        got = 'present' if tm[probe] is marker else 'default'
                    except (KeyError, error.PyAsn1Error):      # unknown key / key in the negative map
                        got = 'refused'
                    if (probe in tm) != (got != 'refused'):
                        out.append('`in` and [] disagree for %s' % (obs(probe),))
                    if got != e:
                        out.append('TagMap(default=%s)[%s] -> %s, model %s' % (has_default, obs(probe), got, e))
    except Exception as ex:   # noqa
        out.append('crash %s: %s' % (type(ex).__name__, ex))
    return out


def tags_part(ctx, sc):
    maxops = 3 if ctx.quick else 4
    with open(sc.file('MC_tags.tla'), 'w') as f:
        f.write('''---- MODULE MC_tags ----
EXTENDS Tags
VARIABLE want
Probe == <<Tag(3, 0, 999)>>
WantOf(b, c, o) == [ok |-> o, tags |-> [i \\in 1..Len(c) |-> <<c[i].c, c[i].k, c[i].n>>],
                    base_is_prefix |-> IsPrefix(b, c), is_prefix_of_base |-> IsPrefix(c, b),
                    lookup_d |-> << Lookup({c}, IF Keys(b) = Keys(c) THEN {} ELSE {b}, TRUE, c), Lookup({c}, IF Keys(b) = Keys(c) THEN {} ELSE {b}, TRUE, b),
                                    Lookup({c}, IF Keys(b) = Keys(c) THEN {} ELSE {b}, TRUE, Probe) >>,
                    lookup_n |-> << Lookup({c}, IF Keys(b) = Keys(c) THEN {} ELSE {b}, FALSE, c), Lookup({c}, IF Keys(b) = Keys(c) THEN {} ELSE {b}, FALSE, b),
                                    Lookup({c}, IF Keys(b) = Keys(c) THEN {} ELSE {b}, FALSE, Probe) >>]
MCInit == Init /\\ want = WantOf(base, cur, okv)
MCNext == Next /\\ want' = WantOf(base', cur', okv')
====
''')
    with open(sc.file('MC_tags.cfg'), 'w') as f:
        f.write('INIT MCInit\nNEXT MCNext\nCONSTANT MaxOps = %d\nINVARIANT TypeOK\nINVARIANT BaseIsPrefix\nCHECK_DEADLOCK FALSE\n' % maxops)
    dump = sc.file('tags.dump')
    r = tlc.run(sc.file('MC_tags.tla'), sc.file('MC_tags.cfg'), sc, dump=dump, timeout=3000)
    ctx.add_tlc('Tags machine: histories of <= %d tagging operations' % maxops, r)
    if not r.ok:
        raise core.Machinery('Tags model run failed: %s %s\n%s' % (r.violated, r.errors[:2], r.out[-1500:]))
    # the action properties are checked on the machine without the bookkeeping variable
    with open(sc.file('MC_tagsp.cfg'), 'w') as f:
        f.write('SPECIFICATION Spec\nCONSTANT MaxOps = %d\nPROPERTY ImplicitKeepsShape\nPROPERTY ExplicitAddsOne\n'
                'PROPERTY UniversalExplicitRefused\nCHECK_DEADLOCK FALSE\n' % maxops)
    r2 = tlc.run(os.path.join(tlc.SPEC, 'Tags.tla'), sc.file('MC_tagsp.cfg'), sc, timeout=3000)
    ctx.add_tlc('Tags machine: action properties (implicit keeps the shape, explicit adds one constructed tag, UNIVERSAL refused)', r2)
    if not r2.ok:
        raise core.Machinery('Tags properties failed: %s %s\n%s' % (r2.violated, r2.errors[:2], r2.out[-1500:]))
    st, x, secs = tlc.tlaps(sc, 'TagsProofs', ['Tags'])
    if st == 'proved':
        ctx.extra['tlaps'] = ('ImplicitReplacesOnlyTheOutermost and ExplicitAddsOneConstructedTag proved by tlapm for tag sets of any '
                              'length and any tag (%d obligations, %.0f s)' % (x, secs))
    elif st == 'failed':
        raise core.Machinery('TLAPS: proof obligations of TagsProofs failed:\n' + x)
    else:
        ctx.extra['tlaps'] = 'not discharged in this run (%s)' % x
    states = list(tlaval.parse_dump(open(dump).read()))
    os.remove(dump)
    states.sort(key=lambda s: json.dumps(s, sort_keys=True))
    res = core.pmap(replay_state, states, chunksize=512)
    bad = 0
    for s, divs in zip(states, res):
        ctx.evaluations += 1
        if divs:
            bad += 1
            ctx.report('tag algebra: base %s, operations %s: %s' % (s['base'], [(o['o'], o['t']['c'], o['t']['k'], o['t']['n']) for o in s['hist']], '; '.join(divs[:3])),
                       {'clause': 'TagAlgebra', 'part': 'tags', 'ops': sorted({o['o'] for o in s['hist']})},
                       {'prop': 'C13', 'kind': 'tags', 'state': s, 'divergences': divs})
    ctx.traces += len(states) - bad
    ctx.keys.add(('tags', len(states)))
    flipped = json.loads(json.dumps(next(s for s in states if s['want']['ok'] and s['want']['tags'])))
    flipped['want']['tags'][-1][1] ^= 1
    if not replay_state(flipped):
        raise core.Machinery('tags replay self-test failed')
    ctx.extra['tags'] = ('%d histories of spec/Tags.tla replayed into TagSet.tagImplicitly/tagExplicitly, subtype(), equality, '
                         'isSuperTagSetOf and TagMap lookups (self-test: a flipped form bit in the model is noticed)' % len(states))
    ctx.sample({'tagging history': states[len(states) // 2]})


def run(ctx):
    codec_props.run_prop(ctx)
    with tlc.Scratch('c13tags') as sc:
        tags_part(ctx, sc)
    ctx.rule += ('; plus every history of <= 3 (quick) / 4 (thorough) implicit/explicit tagging operations (3 classes x 2 forms x '
                 '{0, 31}) on INTEGER, SEQUENCE and an untagged base, generated by spec/Tags.tla and replayed into the tag algebra')
