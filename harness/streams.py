"""Stream doubles and the schedule driver for the streaming decoder (C05, C06, C07, C11, C12).

Stream kinds (DESIGN.md 3.2):
  K2  io.BytesIO subclass that answers None at chosen read calls (the repository's NonBlockingStream)
  K3  seekable raw stream that grows (read -> bytes | None (no data yet) | b'' (closed and drained))
  K4  the same source but not seekable: pyasn1 wraps it in CachingStreamWrapper
Every double logs nothing by itself; the driver records one event per Arrive / Close / Poll.
"""
import io
import itertools
import os

from pyasn1 import error
from pyasn1.type import base

from . import codec_run as R
from . import universe as U

OBJ, UNDERRUN, STOP, EOS, ERR, CRASH = -1, -2, -3, -4, -5, -6


class GrowingRaw(io.RawIOBase):
    """non-blocking byte source: bytes arrive with feed(); seekable or not"""

    def __init__(self, seekable=True, dribble=0):
        super().__init__()
        self._buf = bytearray()
        self._pos = 0
        self._eof = False
        self._seekable = seekable
        self._dribble = dribble        # > 0: never deliver more than this many octets per read
        self.reads = 0
        self.log = None                # list: record <<kind, a, b, c>> of every read / seek / mark (Trace_Mech)
        self._mark = 0
        self.last_failed = 0

    @property
    def markedPosition(self):
        return self._mark

    @markedPosition.setter
    def markedPosition(self, value):
        self._mark = value
        if self.log is not None:
            self.log += [4, value, 0, 0]

    def feed(self, data):
        self._buf += data

    def close_source(self):
        self._eof = True

    def readable(self):
        return True

    def seekable(self):
        return self._seekable

    def read(self, n=-1):
        self.reads += 1
        before = self._pos
        data = self._read(n)
        if self.log is not None:
            got = -1 if data is None else len(data)
            self.log += [2, -1 if n is None else n, got, before]
            if n is not None and n > 0 and got < n:
                self.last_failed = n
        return data

    def _read(self, n):
        if n == 0:
            return b''
        have = len(self._buf) - self._pos
        if have <= 0:
            return b'' if self._eof else None
        k = have if n is None or n < 0 else min(n, have)
        if self._dribble:
            k = min(k, self._dribble)
        data = bytes(self._buf[self._pos:self._pos + k])
        self._pos += k
        return data

    def seek(self, off, whence=os.SEEK_SET):
        if not self._seekable:
            raise io.UnsupportedOperation('seek')
        if whence == os.SEEK_SET:
            p = off
        elif whence == os.SEEK_CUR:
            p = self._pos + off
        else:
            p = len(self._buf) + off
        if p < 0:
            raise ValueError('negative seek position')
        if self.log is not None:
            self.log += [3, p, 0, self._pos]
        self._pos = p
        return p

    def tell(self):
        if not self._seekable:
            raise io.UnsupportedOperation('tell')
        return self._pos

    @property
    def abs_pos(self):
        return self._pos


class NoneInjectingBytesIO(io.BytesIO):
    """complete data; read call number i (1-based, counted over the stream's life) answers None if i in nones"""

    def __init__(self, data, nones=()):
        super().__init__(data)
        self._nones = set(nones)
        self.reads = 0
        self.none_hits = 0

    def read(self, n=-1):
        self.reads += 1
        if self.reads in self._nones:
            self.none_hits += 1
            return None
        return super().read(n)


def classify_poll(it):
    """one next() on the iterator -> (code, payload)"""
    st, r = R.guarded(lambda: next(it), seconds=5)
    if st == 'ok':
        if isinstance(r, error.SubstrateUnderrunError):
            return UNDERRUN, None
        if isinstance(r, base.Asn1Item) and r is not base.noValue:
            return OBJ, r
        return CRASH, 'yielded %r' % (type(r).__name__,)
    if isinstance(r, StopIteration):
        return STOP, None
    if isinstance(r, error.EndOfStreamError):
        return EOS, None
    if isinstance(r, error.PyAsn1Error):
        return ERR, type(r).__name__
    return CRASH, type(r).__name__


def compositions(n):
    """all ways to write n as an ordered sum of positive integers (2^(n-1) of them)"""
    if n == 0:
        yield []
        return
    for bits in range(1 << (n - 1)):
        parts, cur = [], 1
        for i in range(n - 1):
            if bits >> i & 1:
                parts.append(cur)
                cur = 1
            else:
                cur += 1
        parts.append(cur)
        yield parts


class Driver:
    """drives one real StreamingDecoder along one schedule and records the trace"""

    def __init__(self, decoder_cls, data, spec, refs, matcher, kind, options=None):
        self.data = data
        self.refs = refs                    # reference objects (projections) of the complete input
        self.matcher = matcher              # obj -> comparable projection
        self.kind = kind
        if kind == 'K3':
            self.stream = GrowingRaw(seekable=True)
        elif kind == 'K4':
            self.stream = GrowingRaw(seekable=False)
        elif kind == 'K4d':
            self.stream = GrowingRaw(seekable=False, dribble=1)
        else:
            raise ValueError(kind)
        kw = dict(options or {})
        if spec is not None:
            kw['asn1Spec'] = spec
        self.it = iter(decoder_cls(self.stream, **kw))
        self.fed = 0
        self.ev = []
        self.mech = [] if kind == 'K3' else None      # mechanism-level events (absolute positions are known for K3 only)
        if self.mech is not None:
            self.stream.log = self.mech
        self.nobj = 0
        self.done = False
        self.detail = []

    def arrive(self, k):
        self.stream.feed(self.data[self.fed:self.fed + k])
        self.fed += k
        self.ev += [k, 0, 0]
        if self.mech is not None:
            self.mech += [1, k, 0, 0]

    def close(self):
        self.stream.close_source()
        self.ev += [0, 0, 0]
        if self.mech is not None:
            self.mech += [1, 0, 1, 0]

    def poll(self):
        code, payload = classify_poll(self.it)
        a, b = 0, 0
        if code == OBJ:
            self.nobj += 1
            try:
                proj = self.matcher(payload)
            except Exception as e:
                proj = ('projection failed', str(e))
            a = 0
            # which reference object is it?  (expected: the next one)
            if self.nobj <= len(self.refs) and proj == self.refs[self.nobj - 1]:
                a = self.nobj
            else:
                for i, rf in enumerate(self.refs):
                    if proj == rf:
                        a = i + 1
                        break
            b = self.stream.abs_pos if self.kind == 'K3' else -1
        else:
            b = self.stream.abs_pos if self.kind == 'K3' else -1      # where the pending read starts
            if code in (ERR, CRASH):
                self.detail.append(payload)
        if code in (STOP, EOS, ERR, CRASH):
            self.done = True
        self.ev += [code, a, b]
        if self.mech is not None:
            self.mech += [5, code, self.stream.last_failed, self.stream.abs_pos]
        return code

    def poll_until_blocked(self, limit=None):
        limit = limit or (len(self.refs) + 64)
        """poll while objects keep coming; returns the last code"""
        code = None
        for _ in range(limit):
            if self.done:
                return code
            code = self.poll()
            if code != OBJ:
                return code
        return code


def run_schedule(decoder_cls, data, spec, refs, matcher, kind, parts, close_with_last, idle, options=None):
    d = Driver(decoder_cls, data, spec, refs, matcher, kind, options)
    for i, k in enumerate(parts):
        last = i == len(parts) - 1
        d.arrive(k)
        if last and close_with_last:
            d.close()
        code = d.poll_until_blocked()
        if d.done:
            break
        if code == UNDERRUN and idle and not (last and close_with_last):
            for _ in range(idle):
                d.poll()
                if d.done:
                    break
    if not d.done:
        if not close_with_last:
            d.close()
        for _ in range(4):           # a closed source: every poll must make progress or end
            code = d.poll_until_blocked()
            if d.done:
                break
    return d.ev, d.detail, d.mech


def run_k2(decoder_cls, data, spec, refs, matcher, nones, options=None):
    """complete data in a BytesIO subclass that answers None at the read calls listed in nones"""
    stream = NoneInjectingBytesIO(data, nones)
    kw = dict(options or {})
    if spec is not None:
        kw['asn1Spec'] = spec
    it = iter(decoder_cls(stream, **kw))
    ev = [len(data), 0, 0, 0, 0, 0]
    nobj = 0
    detail = []
    for _ in range(len(data) * 3 + len(nones) + 8):
        before = stream.none_hits
        code, payload = classify_poll(it)
        a, b = 0, 0
        if code == OBJ:
            nobj += 1
            try:
                proj = matcher(payload)
            except Exception as e:
                proj = ('projection failed', str(e))
            if nobj <= len(refs) and proj == refs[nobj - 1]:
                a = nobj
            b = stream.tell()
        else:
            a = 1 if stream.none_hits > before else 0
            if code in (ERR, CRASH):
                detail.append(payload)
        ev += [code, a, b]
        if code in (STOP, EOS, ERR, CRASH):
            break
    return ev, detail
