"""Binding between specification terms and pyasn1 objects.

  build_type(T)      type term  -> pyasn1 schema object   (public API only)
  build_value(T, v)  value term -> pyasn1 value object    (public API only)
  project(T, obj)    pyasn1 value object -> value term    ("abs"; never mutates obj, never uses
                                                            pyasn1's own == or prettyPrint)

Terms are the JSON image of the TLA+ terms of spec/X690.tla.
"""
import math

from pyasn1.type import base, char, constraint, namedtype, tag, univ, useful

KIND_CLASS = {
    'bool': univ.Boolean, 'int': univ.Integer, 'enum': univ.Enumerated, 'bits': univ.BitString,
    'octs': univ.OctetString, 'null': univ.Null, 'oid': univ.ObjectIdentifier, 'real': univ.Real,
    'utf8': char.UTF8String, 'numeric': char.NumericString, 'printable': char.PrintableString,
    't61': char.TeletexString, 'videotex': char.VideotexString, 'ia5': char.IA5String,
    'graphic': char.GraphicString, 'visible': char.VisibleString, 'general': char.GeneralString,
    'universal': char.UniversalString, 'bmp': char.BMPString,
    'objdesc': useful.ObjectDescriptor, 'gentime': useful.GeneralizedTime, 'utctime': useful.UTCTime,
    'any': univ.Any, 'seq': univ.Sequence, 'set': univ.Set, 'seqof': univ.SequenceOf,
    'setof': univ.SetOf, 'choice': univ.Choice,
}
OCTET_KINDS = {'octs', 'utf8', 'numeric', 'printable', 't61', 'videotex', 'ia5', 'graphic', 'visible',
               'general', 'universal', 'bmp', 'objdesc', 'gentime', 'utctime', 'any'}
CLASS_BITS = {0: tag.tagClassUniversal, 1: tag.tagClassApplication, 2: tag.tagClassContext,
              3: tag.tagClassPrivate}


def big(n):
    """natural -> BigNat term (canonical big-endian base 256)"""
    out = []
    while n:
        out.append(n & 0xff)
        n >>= 8
    return out[::-1]


def unbig(b):
    n = 0
    for d in b:
        n = n * 256 + d
    return n


def int_term(i):
    return {'neg': i < 0, 'mag': big(abs(i))}


def term_int(t):
    n = unbig(t['mag'])
    return -n if t['neg'] else n


# ------------------------------------------------------------------ constraints (C10/C14)
def build_constraint(c):
    op = c['op']
    if op == 'single':
        return constraint.SingleValueConstraint(*[_cval(x) for x in c['vals']])
    if op == 'range':
        return constraint.ValueRangeConstraint(_cval(c['lo']), _cval(c['hi']))
    if op == 'size':
        return constraint.ValueSizeConstraint(c['lo'], c['hi'])
    if op == 'alphabet':
        return constraint.PermittedAlphabetConstraint(*[bytes([x]).decode('latin-1') for x in c['chars']])
    if op == 'and':
        return constraint.ConstraintsIntersection(*[build_constraint(x) for x in c['args']])
    if op == 'or':
        return constraint.ConstraintsUnion(*[build_constraint(x) for x in c['args']])
    if op == 'not':
        return constraint.ConstraintsExclusion(build_constraint(c['arg']))
    raise ValueError(op)


def _cval(x):
    if isinstance(x, dict) and 'mag' in x:
        return term_int(x)
    if isinstance(x, list):
        return bytes(x)
    return x


# ------------------------------------------------------------------ types
def build_type(T, _top=True):
    k = T['k']
    cls = KIND_CLASS[k]
    if k in ('seq', 'set'):
        nts = []
        for cp in T['comps']:
            ct = build_type(cp['t'], False)
            if cp['mode'] == 'req':
                nts.append(namedtype.NamedType(cp['name'], ct))
            elif cp['mode'] == 'opt':
                nts.append(namedtype.OptionalNamedType(cp['name'], ct))
            else:
                nts.append(namedtype.DefaultedNamedType(cp['name'], build_value(cp['t'], cp['dflt'])))
        obj = cls(componentType=namedtype.NamedTypes(*nts))
    elif k in ('seqof', 'setof'):
        obj = cls(componentType=build_type(T['of'], False))
    elif k == 'choice':
        obj = cls(componentType=namedtype.NamedTypes(
            *[namedtype.NamedType(a['name'], build_type(a['t'], False)) for a in T['alts']]))
    else:
        obj = cls()
    if T.get('cons'):
        obj = obj.subtype(subtypeSpec=build_constraint(T['cons']))
    if T.get('sizecons'):
        obj = obj.subtype(sizeSpec=build_constraint(T['sizecons'])) if hasattr(obj, 'sizeSpec') and False else \
            obj.subtype(subtypeSpec=build_constraint(T['sizecons']))
    for op in T.get('tags', []):
        t = tag.Tag(CLASS_BITS[op['c']], tag.tagFormatSimple, unbig(op['n']))
        if op['m'] == 'E':
            obj = obj.subtype(explicitTag=t)
        else:
            obj = obj.subtype(implicitTag=t)
    return obj


def scalar_py(T, v):
    """value term of a scalar kind -> Python initializer for the pyasn1 class"""
    k = T['k']
    if k == 'bool':
        return bool(v['b'])
    if k in ('int', 'enum'):
        return term_int(v)
    if k == 'bits':
        return tuple(v['bits'])
    if k == 'null':
        return ''
    if k == 'oid':
        return tuple(unbig(a) for a in v['arcs'])
    if k == 'real':
        if v['rk'] == 'zero':
            return (0, 2, 0)
        if v['rk'] == 'pinf':
            return float('inf')
        if v['rk'] == 'minf':
            return float('-inf')
        return (v['m'], v['b'], v['e'])
    if k in OCTET_KINDS:
        return bytes(v['o'])
    raise ValueError(k)


def build_value(T, v, schema=None):
    k = T['k']
    if schema is None:
        schema = build_type(T)
    if k in ('seq', 'set'):
        obj = schema.clone()
        obj.clear()
        for i, cp in enumerate(T['comps']):
            if v['cs'][i]['p']:
                obj.setComponentByPosition(i, build_value(cp['t'], v['cs'][i]['v']))
        return obj
    if k in ('seqof', 'setof'):
        obj = schema.clone()
        obj.clear()
        for i, x in enumerate(v['es']):
            obj.setComponentByPosition(i, build_value(T['of'], x))
        return obj
    if k == 'choice':
        obj = schema.clone()
        a = v['alt'] - 1
        obj.setComponentByPosition(a, build_value(T['alts'][a]['t'], v['v']))
        return obj
    return schema.clone(scalar_py(T, v))


# ------------------------------------------------------------------ native python trees (C17)
def native_py(T, v):
    """value term -> tree of plain Python values accepted by encode(pyObject, asn1Spec=T)"""
    k = T['k']
    if k in ('seq', 'set'):
        return {cp['name']: native_py(cp['t'], v['cs'][i]['v']) for i, cp in enumerate(T['comps']) if v['cs'][i]['p']}
    if k in ('seqof', 'setof'):
        return [native_py(T['of'], x) for x in v['es']]
    if k == 'choice':
        a = v['alt'] - 1
        return {T['alts'][a]['name']: native_py(T['alts'][a]['t'], v['v'])}
    if k == 'null':
        return None                      # the Python image of NULL (what the native encoder produces)
    return scalar_py(T, v)


# ------------------------------------------------------------------ projection ("abs")
class ProjectionError(Exception):
    pass


def real_term(m, b, e):
    if isinstance(m, float):
        if m != int(m):
            raise ProjectionError('non-integral mantissa %r' % (m,))
        m = int(m)
    if m == 0:
        return {'rk': 'zero'}
    return {'rk': 'fin', 'm': m, 'b': b, 'e': e}


def project(T, obj):
    k = T['k']
    if obj is None or obj is base.noValue or not isinstance(obj, base.Asn1Item):
        raise ProjectionError('not an ASN.1 value object: %r' % (type(obj).__name__,))
    if k in ('seq', 'set'):
        out = []
        for i, cp in enumerate(T['comps']):
            c = _get(obj, i)
            if c is None or not c.isValue:
                out.append({'p': False})
            else:
                out.append({'p': True, 'v': project(cp['t'], c)})
        return {'cs': out}
    if k in ('seqof', 'setof'):
        out = []
        for i in range(len(obj)):
            c = _get(obj, i)
            if c is None:
                raise ProjectionError('hole at %d' % i)
            out.append(project(T['of'], c))
        return {'es': out}
    if k == 'choice':
        try:
            name = obj.getName()
            comp = obj.getComponent()
        except Exception as e:
            raise ProjectionError('valueless CHOICE: %s' % e)
        for i, a in enumerate(T['alts']):
            if a['name'] == name:
                return {'alt': i + 1, 'v': project(a['t'], comp)}
        raise ProjectionError('unknown alternative %r' % name)
    if not obj.isValue:
        raise ProjectionError('valueless scalar')
    if k == 'bool':
        return {'b': bool(int(obj))}
    if k in ('int', 'enum'):
        return int_term(int(obj))
    if k == 'bits':
        return {'bits': [int(c) for c in obj.asBinary()] if len(obj) else []}
    if k == 'null':
        return {'nul': 0}
    if k == 'oid':
        return {'arcs': [big(a) for a in obj.asTuple()]}
    if k == 'real':
        if obj.isPlusInf:
            return {'rk': 'pinf'}
        if obj.isMinusInf:
            return {'rk': 'minf'}
        m, b, e = tuple(obj)
        return real_term(m, b, e)
    if k in OCTET_KINDS:
        return {'o': list(obj.asOctets())}
    raise ValueError(k)


def _get(obj, i):
    try:
        c = obj.getComponentByPosition(i, default=None, instantiate=False)
    except Exception:
        return None
    if c is base.noValue:
        return None
    return c


def is_value_object(obj):
    return isinstance(obj, base.Asn1Item) and obj is not base.noValue and bool(obj.isValue)
