"""Entry point: /verif/check <ID> [--tier quick|thorough] [--seed N] [--replay PATH]"""
import argparse
import importlib
import os
import sys
import traceback

from . import core


def main(argv=None):
    ap = argparse.ArgumentParser()
    ap.add_argument('prop')
    ap.add_argument('--tier', default=os.environ.get('VERIF_TIER', 'quick'), choices=['quick', 'thorough'])
    ap.add_argument('--seed', type=int, default=int(os.environ.get('VERIF_SEED', '0') or 0))
    ap.add_argument('--replay', default=None)
    a = ap.parse_args(argv)
    import pyasn1
    root = os.path.dirname(os.path.dirname(os.path.abspath(pyasn1.__file__)))
    if os.path.realpath(root) != os.path.realpath(core.REPO):
        print('machinery failure: pyasn1 imported from %s, expected %s' % (root, core.REPO))
        return core.EXIT_MACHINERY
    if a.replay:
        from . import replay
        return replay.replay(a.replay, a.prop.upper())
    mod = importlib.import_module('harness.checks.' + a.prop.lower())
    ctx = core.Ctx(a.prop.upper(), a.tier, a.seed)
    try:
        mod.run(ctx)
    except core.Machinery as e:
        print('MACHINERY FAILURE (%s): %s' % (a.prop, e))
        return core.EXIT_MACHINERY
    except Exception:
        traceback.print_exc()
        print('MACHINERY FAILURE (%s): unexpected exception in the harness' % a.prop)
        return core.EXIT_MACHINERY
    return ctx.finish()


if __name__ == '__main__':
    sys.exit(main())
