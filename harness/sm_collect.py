"""Run decoders with the PYASN1_VERIF_TRACE hook on and project what the hook recorded onto the events of
spec/Trace_DecoderSM.tla.  Executed as a subprocess (`python -m harness.sm_collect in.json out.ndjson`) so that the
hook is enabled by its environment guard at import time and stays off in every other check.

in.json: list of jobs [id, rules, T (type term or null), streaming (bool), chunks (list of int lists: the pieces in which
the input becomes available; one piece = one-shot)]
out: one line per job {"id":..,"ev":[flat 10-tuples]}"""
import io
import json
import os
import sys

assert os.environ.get('PYASN1_VERIF_TRACE'), 'the hook guard must be set'

from pyasn1 import error                                         # noqa: E402
from pyasn1.codec.ber import decoder as berdec                   # noqa: E402
from pyasn1.type import base, tagmap, univ                             # noqa: E402

from . import core, codec_run as R, stream_pipeline as SP, streams  # noqa: E402
from . import universe as U                                      # noqa: E402

TRACE = berdec.TRACE
assert TRACE is not None, 'hook not active'
W = 10
CAP = 10 ** 6


def tags_of(ts):
    return [(t.tagClass >> 6, 1 if t.tagFormat else 0, min(int(t.tagId), CAP)) for t in ts.superTags]


def spec_kind(sp):
    if sp is None:
        return 0
    if sp.__class__ is tagmap.TagMap:
        return 3
    if isinstance(sp, univ.Any) and not len(sp.tagSet):      # an untagged ANY stands for whatever tag comes
        return 2
    return 1 if len(sp.tagSet) else 2


def dec_kind(d):
    if d is None:
        return 0
    if d is berdec.rawPayloadDecoder:
        return 2
    if isinstance(d, berdec.AnyPayloadDecoder) and d is berdec.SingleItemDecoder.defaultRawDecoder:
        return 3
    return 1


def project(events):
    """hook tuples -> flat int events; call ids are renumbered densely"""
    ids = {}
    frames = {}
    out = []
    for e in events:
        cid = ids.setdefault(e[0], len(ids) + 1)
        k = e[1]
        if k == 'enter':
            _, _, state, eoo, sp, ts, sfun, pos = e
            frames[cid] = sp
            out += [1, cid, state, 1 if eoo else 0, spec_kind(sp), len(ts) if ts is not None else 0, 1 if sfun else 0, 0, pos, 0]
        elif k == 'eoo':
            out += [2, cid, 0, 0, 0, 0, 0, 0, e[2], 0]
        elif k == 'state':
            state = e[2]
            if state == berdec.stGetValueDecoder:
                ts, length, pos = e[3], e[4], e[5]
                tg = tags_of(ts)
                frames[(cid, 'tags')] = tg
                c, kk, n = tg[0] if tg else (0, 0, 0)
                out += [3, cid, state, c, kk, n, 1 if length == -1 else 0, len(tg), pos, min(length, CAP)]
            elif state == berdec.stDecodeValue:
                out += [3, cid, state, dec_kind(e[3]), 0, 0, 0, 0, 0, 0]
            else:
                out += [3, cid, state, 0, 0, 0, 0, 0, 0, 0]
        elif k == 'spec':
            chosen, conc = e[2], e[3]
            sp = frames.get(cid)
            eq = 2
            if spec_kind(sp) == 1:
                eq = 1 if [(a, c) for a, b, c in tags_of(sp.tagSet)] == [(a, c) for a, b, c in frames.get((cid, 'tags'), [])] else 0
            out += [4, cid, 1 if chosen is not None else 0, 1 if conc is not None else 0, eq, 0, 0, 0, 0, 0]
        elif k == 'exit':
            v = e[2]
            ok = isinstance(v, base.Asn1Item) and v is not base.noValue
            out += [5, cid, 1 if ok else 0, 0, 0, 0, 0, 0, e[3], 0]
    return out, len(ids)


def run_job(job):
    """a foreign outcome (exception outside the library's hierarchy, time-out, runaway polling) only counts when it repeats:
    a worker on a machine short of memory or CPU can fail once for reasons of its own"""
    r = _run_job(job)
    if r['ev'][-W + 2] not in (1, 2):
        r = _run_job(job)
    return r


def _run_job(job):
    jid, rules, T, streaming, chunks = job
    spec = U.build_type(T) if T is not None else None
    data = bytes(b for c in chunks for b in c)
    del TRACE[:]
    status = 0

    def go():
        kw = {'asn1Spec': spec} if spec is not None else {}
        if not streaming:
            R.DEC[rules].decode(data, **kw)
            return 1
        raw = streams.GrowingRaw()
        it = iter(SP.STREAMING[rules](raw, **kw))
        n = 0
        pending = list(chunks)
        polls = 0
        while polls < 4 * len(data) + 16:
            polls += 1
            try:
                o = next(it)
            except StopIteration:
                return 1
            if isinstance(o, error.SubstrateUnderrunError):
                if pending:
                    raw.feed(bytes(pending.pop(0)))
                    if not pending:
                        raw.close_source()
                else:
                    return 2
            else:
                n += 1
        return 6
    st, r = R.guarded(go, seconds=20)
    if st == 'exc':
        status = 2 if isinstance(r, error.PyAsn1Error) else (5 if isinstance(r, R._Timeout) else 3)
    else:
        status = r
    ev, nframes = project(list(TRACE))
    del TRACE[:]
    ev += [9, 0, status, nframes, len(data), 0, 0, 0, 0, 0]
    return {'id': jid, 'ev': ev}


def main():
    jobs = json.load(open(sys.argv[1]))
    res = core.pmap(run_job, jobs, chunksize=64)
    with open(sys.argv[2], 'w') as f:
        for r in res:
            f.write(json.dumps(r, separators=(',', ':')) + '\n')


if __name__ == '__main__':
    main()
