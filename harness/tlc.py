"""Run TLC on a module of /verif/spec (or a generated MC module) and collect what the checks need:
state counts, invariant/property verdicts, PrintT tuples, coverage, dump files."""
import os
import re
import shutil
import subprocess
import tempfile
import time

from . import tlaval

VERIF = os.path.dirname(os.path.dirname(os.path.abspath(__file__)))
SPEC = os.path.join(VERIF, 'spec')
JAR = '/opt/veriftools/tla/tla2tools.jar:/opt/veriftools/tla/CommunityModules-deps.jar'


class TlcError(Exception):
    pass


class Scratch:
    """A scratch directory under /verif/scratch that is removed when the check ends."""

    def __init__(self, name):
        base = os.path.join(VERIF, 'scratch')
        os.makedirs(base, exist_ok=True)
        self.path = tempfile.mkdtemp(prefix=name + '-', dir=base)

    def file(self, name):
        return os.path.join(self.path, name)

    def cleanup(self):
        shutil.rmtree(self.path, ignore_errors=True)

    def __enter__(self):
        return self

    def __exit__(self, *a):
        if not os.environ.get('VERIF_KEEP_SCRATCH'):
            self.cleanup()


class Result:
    def __init__(self):
        self.rc = None
        self.out = ''
        self.generated = 0
        self.distinct = 0
        self.depth = 0
        self.errors = []          # lines starting with Error:
        self.violated = []        # names of violated invariants/properties
        self.printed = []         # parsed PrintT values
        self.wall = 0.0
        self.coverage = {}        # action name -> (distinct, total)
        self.finished = False

    @property
    def ok(self):
        return self.finished and not self.errors and not self.violated


_GEN = re.compile(r'(\d+) states generated, (\d+) distinct states found')
_DEPTH = re.compile(r'The depth of the complete state graph search is (\d+)')
_INV = re.compile(r'Error: Invariant (\S+) is violated')
_PROP = re.compile(r'Error: (?:Action property|Temporal properties were violated|Property) ?(\S*)')
_COV = re.compile(r'^<(\w+) line \d+, col \d+ to line \d+, col \d+ of module (\w+)(?: \([\d ]+\))?>: (\d+):(\d+)', re.M)


def run(module, cfg, scratch, workers=None, timeout=3600, env=None, dump=None, extra=(),
        simulate=None, depth=None, seed=None, coverage=False, lib=None, heap='8g', deque=False):
    """module: path to .tla (in scratch or spec); cfg: path to .cfg."""
    workers = workers or os.cpu_count() or 4
    meta = os.path.join(scratch.path, 'meta-%d' % int(time.time() * 1000))
    libs = [SPEC] + ([lib] if lib else [])
    cmd = ['java', '-XX:+UseParallelGC', '-Xmx' + heap, '-Xss256m',
           '-DTLA-Library=' + os.pathsep.join(libs),
           '-Djava.io.tmpdir=' + scratch.path]        # TLC's temporary directories go away with the scratch directory
    if deque:
        cmd.append('-Dtlc2.tool.queue.IStateQueue=StateDeque')
    cmd += ['-cp', JAR, 'tlc2.TLC', '-workers', str(workers), '-metadir', meta, '-noGenerateSpecTE',
            '-config', cfg]
    if dump:
        cmd += ['-dump', dump]
    if simulate:
        cmd += ['-simulate', simulate]
    if depth:
        cmd += ['-depth', str(depth)]
    if seed is not None:
        cmd += ['-seed', str(seed)]
    if coverage:
        cmd += ['-coverage', '1']
    cmd += list(extra)
    cmd.append(module)
    e = dict(os.environ)
    e.pop('JAVA_TOOL_OPTIONS', None)
    if env:
        e.update(env)
    t0 = time.time()
    r = Result()
    try:
        p = subprocess.run(cmd, cwd=os.path.dirname(module), env=e, stdout=subprocess.PIPE,
                           stderr=subprocess.STDOUT, timeout=timeout, text=True, errors='replace')
        r.rc = p.returncode
        r.out = p.stdout
    except subprocess.TimeoutExpired as ex:
        r.rc = -9
        r.out = (ex.stdout or b'').decode('utf-8', 'replace') if isinstance(ex.stdout, bytes) else (ex.stdout or '')
        r.errors.append('TIMEOUT after %ss' % timeout)
    r.wall = time.time() - t0
    shutil.rmtree(meta, ignore_errors=True)
    out = r.out
    for m in _GEN.finditer(out):
        r.generated, r.distinct = int(m.group(1)), int(m.group(2))
    m = _DEPTH.search(out)
    if m:
        r.depth = int(m.group(1))
    r.violated = _INV.findall(out)
    for line in out.splitlines():
        if line.startswith('Error:') and 'Invariant' not in line:
            r.errors.append(line)
    r.finished = ('Model checking completed' in out) or ('Finished in' in out and simulate is not None) \
        or bool(_GEN.search(out))
    if 'Model checking completed. No error has been found' not in out and not simulate:
        if not r.violated and not r.errors:
            r.errors.append('TLC did not complete (rc=%s)' % r.rc)
    r.printed = extract_printed(out)
    for m in _COV.finditer(out):
        r.coverage[m.group(1)] = (int(m.group(3)), int(m.group(4)))
    return r


def extract_printed(out):
    """PrintT of tuples: find balanced <<...>> at line starts (workers may interleave lines)."""
    res = []
    for line in out.splitlines():
        s = line.strip()
        if s.startswith('<<"') and s.endswith('>>'):
            try:
                res.append(tlaval.parse(s))
            except Exception:
                pass
    return res


def write_cfg(path, spec=None, init=None, next_=None, invariants=(), properties=(), constants=(),
              constraints=(), view=None, postcondition=None, deadlock=False, action_constraints=()):
    lines = []
    if spec:
        lines.append('SPECIFICATION ' + spec)
    else:
        lines.append('INIT ' + init)
        lines.append('NEXT ' + next_)
    for c in constants:
        lines.append('CONSTANT ' + c)
    for i in invariants:
        lines.append('INVARIANT ' + i)
    for p in properties:
        lines.append('PROPERTY ' + p)
    for c in constraints:
        lines.append('CONSTRAINT ' + c)
    for c in action_constraints:
        lines.append('ACTION_CONSTRAINT ' + c)
    if view:
        lines.append('VIEW ' + view)
    if postcondition:
        lines.append('POSTCONDITION ' + postcondition)
    lines.append('CHECK_DEADLOCK ' + ('TRUE' if deadlock else 'FALSE'))
    with open(path, 'w') as f:
        f.write('\n'.join(lines) + '\n')


class AcceptorFailure(Exception):
    pass


def run_traces(ctx, sc, module, traces, name, nev, max_events=60000, invariants=(), heap='12g', timeout=3000, workers=None):
    """Hand `traces` (list of JSON-able dicts) to the trace acceptor `module` (spec/<module>.tla, SPECIFICATION TraceSpec,
    reads IOEnv.TRACE_FILE) in bounded chunks, one TLC run each, so that the deserialised file stays well inside the JVM
    heap whatever the size of the tier.  nev(trace) = number of events (= steps) of a trace; every run must consume
    exactly events + traces states.  Returns the concatenated PrintT values."""
    import json
    chunks, cur, n = [], [], 0
    for t in traces:
        k = nev(t)
        if cur and n + k > max_events:
            chunks.append(cur)
            cur, n = [], 0
        cur.append(t)
        n += k
    if cur:
        chunks.append(cur)
    printed = []
    total = None
    for ci, chunk in enumerate(chunks):
        cname = name if len(chunks) == 1 else '%s-%d' % (name, ci + 1)
        path = sc.file(cname + '.ndjson')
        with open(path, 'w') as f:
            for t in chunk:
                f.write(json.dumps(t, separators=(',', ':')) + '\n')
        cpath = sc.file(cname + '.cfg')
        write_cfg(cpath, spec='TraceSpec', invariants=invariants)
        kw = {'workers': workers} if workers else {}
        r = run(os.path.join(SPEC, module + '.tla'), cpath, sc, env={'TRACE_FILE': path}, timeout=timeout, heap=heap, **kw)
        if not os.environ.get('VERIF_KEEP_SCRATCH'):
            os.remove(path)
        want = sum(nev(t) for t in chunk) + len(chunk)
        if not r.ok or r.distinct != want:
            raise AcceptorFailure('%s run %d/%d: ok=%s violated=%s distinct=%s expected=%s errors=%s\n%s' % (
                module, ci + 1, len(chunks), r.ok, r.violated, r.distinct, want, r.errors[:3], r.out[-2000:]))
        printed += r.printed
        if total is None:
            total = r
        else:
            total.generated += r.generated
            total.distinct += r.distinct
            total.wall += r.wall
            total.depth = max(total.depth or 0, r.depth or 0)
    ctx.add_tlc(name if len(chunks) == 1 else '%s (%d acceptor runs)' % (name, len(chunks)), total)
    return printed


def tlaps(sc, proof_module, deps, timeout=900):
    """Run tlapm on spec/proofs/<proof_module>.tla (with the spec modules `deps` copied next to it) in a scratch directory.
    Returns ('proved', n, seconds) | ('failed', text, seconds) | ('unavailable', reason, seconds).  A prover that is missing
    or times out is 'unavailable' (noted in the evidence, TLC checks the same laws on the bounded model); an obligation
    that fails is 'failed' (specification and proof have drifted apart: machinery failure for the caller)."""
    d = sc.file('tlaps-' + proof_module)
    os.makedirs(d, exist_ok=True)
    for m in deps:
        shutil.copy(os.path.join(SPEC, m + '.tla'), d)
    shutil.copy(os.path.join(SPEC, 'proofs', proof_module + '.tla'), d)
    t0 = time.time()
    try:
        p = subprocess.run(['tlapm', '--cleanfp', proof_module + '.tla'], cwd=d, stdout=subprocess.PIPE, stderr=subprocess.STDOUT,
                           text=True, timeout=timeout)
    except (OSError, subprocess.TimeoutExpired) as e:
        return 'unavailable', type(e).__name__, time.time() - t0
    m = re.search(r'All (\d+) obligations? proved', p.stdout)
    if m:
        return 'proved', int(m.group(1)), time.time() - t0
    if re.search(r'obligations? failed', p.stdout):
        return 'failed', p.stdout[-1500:], time.time() - t0
    return 'unavailable', p.stdout[-200:].replace('\n', ' '), time.time() - t0
