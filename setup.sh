#!/bin/sh
# offline setup: parse every TLA+ module with SANY and byte-compile the harness
set -e
cd "$(dirname "$0")"
for m in spec/*.tla; do
  ( cd spec && tla-sany "$(basename "$m")" >/dev/null 2>&1 ) || { echo "SANY failed on $m"; exit 1; }
done
PYTHONDONTWRITEBYTECODE=1 /venv/bin/python - <<'P'
import ast, glob, sys
for f in glob.glob('harness/**/*.py', recursive=True):
    ast.parse(open(f).read(), f)
print('setup ok')
P
