-------------------------------- MODULE X690 --------------------------------
(***************************************************************************)
(* Normative model of X.680 types/values and of the X.690 encoding rules.  *)
(*                                                                         *)
(*   type terms   T  (records, see TagsOf / kinds below)                   *)
(*   value terms  v  (Norm(T,v) is "the abstract content")                 *)
(*   Enc(md,T,v)     reference encoder; md fixes every X.690 choice point  *)
(*                   (DERMode, CERMode, LibBER(def,chunk), Variant modes)  *)
(*   TLV(b,...)      generic reader of one BER TLV tree                    *)
(*   Parse(r,T,b)    reference reader guided by T under rules r            *)
(*                   r \in {"BER","CER","DER"} -> [st,v,rest]              *)
(*                                                                         *)
(* This text shares nothing with pyasn1; it is the independent reference   *)
(* of properties C01-C03, C06, C07, C09, C13, C15, C16.                    *)
(***************************************************************************)
EXTENDS Octets

CharKinds == {"utf8", "numeric", "printable", "t61", "videotex", "ia5", "graphic",
              "visible", "general", "universal", "bmp"}
UsefulKinds == {"objdesc", "gentime", "utctime"}
OctetStringKinds == {"octs"} \cup CharKinds \cup UsefulKinds   \* content = the octets
IntKinds == {"int", "enum"}
ConsKinds == {"seq", "set", "seqof", "setof"}
ScalarKinds == {"bool", "int", "enum", "bits", "null", "oid", "real"} \cup OctetStringKinds
AllKinds == ScalarKinds \cup ConsKinds \cup {"choice", "any"}

UnivNum(k) ==
  CASE k = "bool" -> 1 [] k = "int" -> 2 [] k = "bits" -> 3 [] k = "octs" -> 4
    [] k = "null" -> 5 [] k = "oid" -> 6 [] k = "objdesc" -> 7 [] k = "real" -> 9
    [] k = "enum" -> 10 [] k = "utf8" -> 12 [] k = "seq" -> 16 [] k = "seqof" -> 16
    [] k = "set" -> 17 [] k = "setof" -> 17 [] k = "numeric" -> 18 [] k = "printable" -> 19
    [] k = "t61" -> 20 [] k = "videotex" -> 21 [] k = "ia5" -> 22 [] k = "utctime" -> 23
    [] k = "gentime" -> 24 [] k = "graphic" -> 25 [] k = "visible" -> 26
    [] k = "general" -> 27 [] k = "universal" -> 28 [] k = "bmp" -> 30

(***************************************************************************)
(* Tag algebra (X.680 31).  A tag is [c: class 0..3, f: 0 primitive /      *)
(* 1 constructed, n: BigNat].  A type carries the list of tagging          *)
(* operations applied to its base type, first applied first:               *)
(*   [m |-> "I" | "E", c |-> 0..3, n |-> BigNat]                           *)
(* TagsOf(T) lists the tags outermost first.                               *)
(***************************************************************************)
MkTag(c, f, n) == [c |-> c, f |-> f, n |-> n]

BaseTags(T) ==
  IF T.k \in {"choice", "any"} THEN <<>>
  ELSE << MkTag(0, IF T.k \in ConsKinds THEN 1 ELSE 0, NatToBig(UnivNum(T.k))) >>

TagImplicitly(ts, c, n) ==
  IF Len(ts) = 0 THEN << MkTag(c, 0, n) >> ELSE << MkTag(c, ts[1].f, n) >> \o Tail(ts)
TagExplicitly(ts, c, n) == << MkTag(c, 1, n) >> \o ts
ExplicitAllowed(c) == c # 0           \* explicit tagging refuses the UNIVERSAL class

ApplyOp(ts, op) == IF op.m = "E" THEN TagExplicitly(ts, op.c, op.n) ELSE TagImplicitly(ts, op.c, op.n)

RECURSIVE ApplyOps(_, _)
ApplyOps(ts, ops) == IF Len(ops) = 0 THEN ts ELSE ApplyOps(ApplyOp(ts, Head(ops)), Tail(ops))

TagsOf(T) == ApplyOps(BaseTags(T), T.tags)

SameTag(a, b) == a.c = b.c /\ a.n = b.n
(* canonical tag order: class first, then number (X.680 8.6) *)
TagCmp(a, b) == IF a.c < b.c THEN -1 ELSE IF a.c > b.c THEN 1 ELSE BigCmp(a.n, b.n)

(* identifier octets (X.690 8.1.2) *)
IdOctets(c, f, n) ==
  IF BigCmp(n, <<31>>) < 0 THEN << c * 64 + f * 32 + BigToNat(n) >>
  ELSE << c * 64 + f * 32 + 31 >> \o Base128Octets(n)

(* length octets (X.690 8.1.3); lf = 0 minimal, 1 = long form with minimal *)
(* number of octets, 2 = long form with one superfluous leading zero octet *)
LenOctets(n, lf) ==
  LET b == NatToBig(n) IN
  IF lf = 0 THEN (IF n < 128 THEN <<n>> ELSE <<128 + Len(b)>> \o b)
  ELSE IF lf = 1 THEN (IF n = 0 THEN <<129, 0>> ELSE <<128 + Len(b)>> \o b)
  ELSE <<128 + Len(b) + 1, 0>> \o b

(***************************************************************************)
(* Encoder modes: every X.690 sender's option in one record.               *)
(*  def   : sequence of BOOLEAN, indexed cyclically by nesting depth:      *)
(*          TRUE = definite length for constructed encodings at that depth *)
(*  lf    : sequence of 0..2, cyclic by depth: length form (see LenOctets) *)
(*  chunk : 0 = primitive strings; k > 0: strings with more than k content *)
(*          octets are constructed from k-octet primitive fragments        *)
(*  nest  : TRUE = the fragment list is wrapped once more (nested          *)
(*          constructed string, X.690 8.7.3.1)                             *)
(*  tru   : the octet used for TRUE                                        *)
(*  sorted: canonical order of SET components and SET OF members           *)
(*  omit  : DEFAULT components equal to their default are left out         *)
(*  perm  : 0 = declared order of SET components, 1 = reversed (BER only)  *)
(*  canon : "ber" | "cer" | "der" (tag used to sort an untagged CHOICE)    *)
(*  dev   : set of NAMED DEVIATIONS of the implementation from X.690 that  *)
(*          are confirmed defects recorded in known_findings.json.  With   *)
(*          dev = {} (always, in every property) Enc is the X.690 encoder; *)
(*          the trace acceptor uses dev # {} only to EXPLAIN a rejected    *)
(*          event exactly (so that nothing else hides behind a finding):   *)
(*    "F1"  explicit tag around a type that has no constructed form, in    *)
(*          indefinite mode: definite length but end-of-octets appended    *)
(*    "F4"  base-10 REAL written without the decimal mark of NR3           *)
(*    "F26" CER/DER: an OPTIONAL component holding a constructed value     *)
(*          with empty contents is left out                                *)
(*    "F28" CER BIT STRING: 1000 data octets (1001 contents octets) per    *)
(*          fragment / primitive up to 1001 contents octets (9.2 says 1000)*)
(***************************************************************************)
DERMode == [def |-> <<TRUE>>, lf |-> <<0>>, chunk |-> 0, nest |-> FALSE, tru |-> 255,
            sorted |-> TRUE, omit |-> TRUE, perm |-> 0, canon |-> "der", bitchunk |-> "x690", dev |-> {}]
CERMode == [def |-> <<FALSE>>, lf |-> <<0>>, chunk |-> 1000, nest |-> FALSE, tru |-> 255,
            sorted |-> TRUE, omit |-> TRUE, perm |-> 0, canon |-> "cer", bitchunk |-> "x690", dev |-> {}]
LibBER(def, chunk) ==
           [def |-> <<def>>, lf |-> <<0>>, chunk |-> chunk, nest |-> FALSE, tru |-> 1,
            sorted |-> FALSE, omit |-> TRUE, perm |-> 0, canon |-> "ber", bitchunk |-> "data", dev |-> {}]

Cyc(s, d) == s[(d % Len(s)) + 1]

(* one TLV: header + content, indefinite form only for constructed encodings *)
Wrap(md, d, tg, cons, content) ==
  IdOctets(tg.c, IF cons THEN 1 ELSE 0, tg.n) \o
  (IF cons /\ ~Cyc(md.def, d) THEN <<128>> \o content \o <<0, 0>>
   ELSE LenOctets(Len(content), Cyc(md.lf, d)) \o content)

(***************************************************************************)
(* Contents octets of the simple types                                     *)
(***************************************************************************)
(* OBJECT IDENTIFIER (8.19): value = sequence of BigNat arcs, Len >= 2 *)
OidFirstSubId(v) == BigAdd(BigMulSmall(v[1], 40), v[2])
OidContent(v) ==
  Base128Octets(OidFirstSubId(v)) \o Flat([i \in 1..(Len(v) - 2) |-> Base128Octets(v[i + 2])])
OidValid(v) == /\ Len(v) >= 2
               /\ BigCmp(v[1], <<2>>) <= 0
               /\ (BigCmp(v[1], <<2>>) < 0 => BigCmp(v[2], <<39>>) <= 0)

(* BIT STRING (8.6): value = sequence of 0/1 *)
BitsPacked(bits) == Groups(PadRightTo(bits, 8), 8)
BitsUnused(bits) == (8 - (Len(bits) % 8)) % 8
BitsContent(bits) == << BitsUnused(bits) >> \o BitsPacked(bits)

(* decimal digits of a natural, as ASCII *)
RECURSIVE DecDigits(_)
DecDigits(n) == IF n < 10 THEN <<48 + n>> ELSE DecDigits(n \div 10) \o <<48 + (n % 10)>>

(* REAL (8.5): [rk |-> "zero"|"pinf"|"minf"|"fin", m, b, e] with small      *)
(* integers m # 0, b \in {2,10}, e.  RealNorm: mantissa odd (base 2) / not  *)
(* divisible by 10 (base 10), which is also the canonical form (11.3).     *)
RECURSIVE RealNormFin(_, _, _)
RealNormFin(m, b, e) == IF m % b = 0 THEN RealNormFin(m \div b, b, e + 1) ELSE [rk |-> "fin", m |-> m, b |-> b, e |-> e]
AbsInt(i) == IF i < 0 THEN 0 - i ELSE i
RealNorm(v) ==
  IF v.rk # "fin" THEN [rk |-> v.rk]
  ELSE LET n == RealNormFin(AbsInt(v.m), v.b, v.e)
       IN [rk |-> "fin", m |-> IF v.m < 0 THEN 0 - n.m ELSE n.m, b |-> v.b, e |-> n.e]

RealContent(md, v0) ==
  LET v == RealNorm(v0) IN
  IF v.rk = "zero" THEN <<>>
  ELSE IF v.rk = "pinf" THEN <<64>>
  ELSE IF v.rk = "minf" THEN <<65>>
  ELSE IF v.b = 2 THEN
     LET eo == TwosComplement(SmallInt(v.e))
         sign == IF v.m < 0 THEN 64 ELSE 0
         mant == NatToBig(AbsInt(v.m))
     IN IF Len(eo) <= 3 THEN <<128 + sign + (Len(eo) - 1)>> \o eo \o mant
        ELSE <<128 + sign + 3, Len(eo)>> \o eo \o mant
  ELSE \* base 10: ISO 6093 NR3, canonical punctuation of X.690 11.3.2
     <<3>> \o (IF v.m < 0 THEN <<45>> ELSE <<>>) \o DecDigits(AbsInt(v.m)) \o (IF "F4" \in md.dev THEN <<69>> ELSE <<46, 69>>)
           \o (IF v.e = 0 THEN <<43, 48>>
               ELSE IF v.e < 0 THEN <<45>> \o DecDigits(0 - v.e) ELSE DecDigits(v.e))

(***************************************************************************)
(* Segmentation of string contents (8.7.3, 8.21.6, 8.6.4, 9.2)             *)
(***************************************************************************)
NumChunks(n, k) == (n + k - 1) \div k
ChunkOf(s, k, i) == SubSeq(s, (i - 1) * k + 1, Min2(i * k, Len(s)))

(* fragments of an octet-aligned string: OCTET STRING TLVs (universal 4) *)
OctetFragments(md, d, s) ==
  Flat([i \in 1..NumChunks(Len(s), md.chunk) |->
          Wrap(md, d + 1, MkTag(0, 0, <<4>>), FALSE, ChunkOf(s, md.chunk, i))])

(* fragments of a BIT STRING: every fragment but the last holds whole      *)
(* octets.  "x690": k content octets per fragment (k-1 data octets);       *)
(* "data": k data octets per fragment                                      *)
BitFragData(md) == IF md.bitchunk = "x690" /\ "F28" \notin md.dev THEN md.chunk - 1 ELSE md.chunk
BitFragments(md, d, bits) ==
  LET packed == BitsPacked(bits)
      k == BitFragData(md)
      n == NumChunks(Len(packed), k)
  IN Flat([i \in 1..n |->
            Wrap(md, d + 1, MkTag(0, 0, <<3>>), FALSE,
                 <<IF i = n THEN BitsUnused(bits) ELSE 0>> \o ChunkOf(packed, k, i))])

NestOnce(md, d, univ, frags) ==
  IF md.nest THEN Wrap(md, d + 1, MkTag(0, 1, <<univ>>), TRUE, frags) ELSE frags

(***************************************************************************)
(* Component helpers                                                       *)
(***************************************************************************)

(* stable sort of a sequence under a three-way comparison (no recursion: rank counting) *)
SortBy3(s, Cmp(_, _)) ==
  LET n == Len(s)
      rank(i) == Cardinality({j \in 1..n : Cmp(s[j], s[i]) < 0 \/ (Cmp(s[j], s[i]) = 0 /\ j < i)}) + 1
  IN [r \in 1..n |-> s[CHOOSE i \in 1..n : rank(i) = r]]
(* permutation of 1..Len(keys) that sorts keys *)
SortPerm(keys, Cmp(_, _)) ==
  LET n == Len(keys)
      rank(i) == Cardinality({j \in 1..n : Cmp(keys[j], keys[i]) < 0 \/ (Cmp(keys[j], keys[i]) = 0 /\ j < i)}) + 1
  IN [r \in 1..n |-> CHOOSE i \in 1..n : rank(i) = r]

(* SET OF order (11.6): octet strings compared with the shorter one padded with zero octets *)
PaddedCmp(a, b) ==
  LET n == Max2(Len(a), Len(b))
  IN LexCmp(a \o Rep(0, n - Len(a)), b \o Rep(0, n - Len(b)))

(***************************************************************************)
(* Normal form of values = "abstract content"                              *)
(* Every value is a record whose field names identify its kind (TLC can    *)
(* only compare like with like):                                           *)
(*   bool [b]  int/enum [neg,mag]  bits [bits]  octet/char/useful/any [o]  *)
(*   null [nul]  oid [arcs]  real [rk,m,b,e]  choice [alt,v]               *)
(*   seq/set [cs]: sequence of [p |-> TRUE, v |-> value] / [p |-> FALSE];  *)
(*             Norm fills in an absent DEFAULT component                   *)
(*   seqof/setof [es]; Norm puts SET OF members in canonical (DER) order,  *)
(*             i.e. compares them as a bag;  real: RealNorm                *)
(***************************************************************************)
RECURSIVE Norm(_, _), Enc(_, _, _, _), Body(_, _, _, _), OuterTag(_, _, _), StaticMinTag(_)

Norm(T, v) ==
  CASE T.k \in {"seq", "set"} ->
         [cs |-> [i \in 1..Len(T.comps) |->
            IF v.cs[i].p THEN [p |-> TRUE, v |-> Norm(T.comps[i].t, v.cs[i].v)]
            ELSE IF T.comps[i].mode = "def" THEN [p |-> TRUE, v |-> Norm(T.comps[i].t, T.comps[i].dflt)]
            ELSE [p |-> FALSE]]]
    [] T.k = "seqof" -> [es |-> [i \in 1..Len(v.es) |-> Norm(T.of, v.es[i])]]
    [] T.k = "setof" ->
         LET ns == [i \in 1..Len(v.es) |-> Norm(T.of, v.es[i])]
             ks == [i \in 1..Len(v.es) |-> Enc(DERMode, 0, T.of, ns[i])]
             Cmp(a, b) == PaddedCmp(a, b)
             pm == SortPerm(ks, Cmp)
         IN [es |-> [r \in 1..Len(v.es) |-> ns[pm[r]]]]
    [] T.k = "choice" -> [alt |-> v.alt, v |-> Norm(T.alts[v.alt].t, v.v)]
    [] T.k = "real" -> RealNorm(v)
    [] OTHER -> v

(***************************************************************************)
(* The reference encoder                                                   *)
(***************************************************************************)
(* smallest tag an untagged CHOICE can show (static; used by CER 9.3) *)
StaticMinTag(T) ==
  LET ts == TagsOf(T) IN
  IF Len(ts) > 0 THEN ts[1]
  ELSE LET cands == [i \in 1..Len(T.alts) |-> StaticMinTag(T.alts[i].t)]
           Cmp(a, b) == TagCmp(a, b)
       IN SortBy3(cands, Cmp)[1]

FirstTagOfBytes(b) ==   \* tag of a raw TLV (untagged ANY)
  LET o == b[1] IN MkTag(o \div 64, (o \div 32) % 2, IF o % 32 < 31 THEN NatToBig(o % 32) ELSE <<255>>)

(* the outermost tag the encoding of (T,v) starts with *)
OuterTag(md, T, v) ==
  LET ts == TagsOf(T) IN
  IF Len(ts) > 0 THEN ts[1]
  ELSE IF T.k = "any" THEN FirstTagOfBytes(v.o)
  ELSE IF md.canon = "cer" THEN StaticMinTag(T)
  ELSE OuterTag(md, T.alts[v.alt].t, v.v)

EmptyConstructed(T, v) ==
  \/ (T.k \in {"seqof", "setof"} /\ Len(v.es) = 0)
  \/ (T.k \in {"seq", "set"} /\ \A i \in 1..Len(T.comps) : ~v.cs[i].p)

(* Body: [cons |-> contents are constructed, octs |-> contents octets] of the base type *)
Body(md, d, T, v) ==
  CASE T.k = "bool" -> [cons |-> FALSE, octs |-> <<IF v.b THEN md.tru ELSE 0>>]
    [] T.k \in IntKinds -> [cons |-> FALSE, octs |-> TwosComplement(v)]
    [] T.k = "null" -> [cons |-> FALSE, octs |-> <<>>]
    [] T.k = "oid" -> [cons |-> FALSE, octs |-> OidContent(v.arcs)]
    [] T.k = "real" -> [cons |-> FALSE, octs |-> RealContent(md, v)]
    [] T.k \in OctetStringKinds ->
         IF md.chunk > 0 /\ Len(v.o) > md.chunk
         THEN [cons |-> TRUE, octs |-> NestOnce(md, d, 4, OctetFragments(md, d, v.o))]
         ELSE [cons |-> FALSE, octs |-> v.o]
    [] T.k = "bits" ->
         IF md.chunk > 0 /\ Len(BitsPacked(v.bits)) > BitFragData(md)
         THEN [cons |-> TRUE, octs |-> NestOnce(md, d, 3, BitFragments(md, d, v.bits))]
         ELSE [cons |-> FALSE, octs |-> BitsContent(v.bits)]
    [] T.k = "any" -> [cons |-> FALSE, octs |-> v.o]
    [] T.k = "choice" -> [cons |-> TRUE, octs |-> Enc(md, d, T.alts[v.alt].t, v.v)]
    [] T.k = "seqof" ->
         [cons |-> TRUE, octs |-> Flat([i \in 1..Len(v.es) |-> Enc(md, d + 1, T.of, v.es[i])])]
    [] T.k = "setof" ->
         LET es == [i \in 1..Len(v.es) |-> Enc(md, d + 1, T.of, v.es[i])]
             Cmp(a, b) == PaddedCmp(a, b)
         IN [cons |-> TRUE, octs |-> Flat(IF md.sorted THEN SortBy3(es, Cmp) ELSE es)]
    [] T.k \in {"seq", "set"} ->
         LET n == Len(T.comps)
             emitted(i) ==
               IF ~v.cs[i].p THEN FALSE
               ELSE IF "F26" \in md.dev /\ T.comps[i].mode = "opt" /\ EmptyConstructed(T.comps[i].t, v.cs[i].v) THEN FALSE
               ELSE IF T.comps[i].mode = "def" /\ md.omit
                    THEN Norm(T.comps[i].t, v.cs[i].v) # Norm(T.comps[i].t, T.comps[i].dflt)
                    ELSE TRUE
             idxs == SelectSeq([i \in 1..n |-> i], emitted)
             otag == [j \in 1..Len(idxs) |-> OuterTag(md, T.comps[idxs[j]].t, v.cs[idxs[j]].v)]
             CmpTag(a, b) == TagCmp(a, b)
             pm == SortPerm(otag, CmpTag)
             order == IF T.k = "set" /\ md.sorted THEN [j \in 1..Len(idxs) |-> idxs[pm[j]]]
                      ELSE IF T.k = "set" /\ md.perm = 1 THEN [i \in 1..Len(idxs) |-> idxs[Len(idxs) + 1 - i]]
                      ELSE idxs
         IN [cons |-> TRUE,
             octs |-> Flat([j \in 1..Len(order) |-> Enc(md, d + 1, T.comps[order[j]].t, v.cs[order[j]].v)])]

(* wrap the body in the type's tags, innermost first *)
NoConstructedForm == {"bool", "int", "enum", "null", "oid", "real"}
StrayWrap(md, d, tg, content) ==      \* deviation F1
  IdOctets(tg.c, 1, tg.n) \o LenOctets(Len(content), Cyc(md.lf, d)) \o content \o <<0, 0>>
RECURSIVE WrapTags(_, _, _, _, _, _)
WrapTags(md, d, ts, i, acc, stray) ==   \* acc = encoding built so far for tags i+1..Len(ts); wrap with tag i..1
  IF i = 0 THEN acc
  ELSE WrapTags(md, d, ts, i - 1,
                IF stray /\ ~Cyc(md.def, d) THEN StrayWrap(md, d, ts[i], acc) ELSE Wrap(md, d, ts[i], TRUE, acc), stray)

Enc(md, d, T, v) ==
  LET ts == TagsOf(T)
      bd == Body(md, d, T, v)
  IN IF Len(ts) = 0 THEN bd.octs
     ELSE IF T.k = "choice" \/ (T.k = "any" /\ ts[Len(ts)].f = 1)
          THEN WrapTags(md, d, ts, Len(ts), bd.octs, FALSE)     \* every tag is an explicit wrapper
          ELSE WrapTags(md, d, ts, Len(ts) - 1,
                        Wrap(md, d, ts[Len(ts)], bd.cons \/ ts[Len(ts)].f = 1, bd.octs),
                        "F1" \in md.dev /\ T.k \in NoConstructedForm)

DER(T, v) == Enc(DERMode, 0, T, v)
CER(T, v) == Enc(CERMode, 0, T, v)

(***************************************************************************)
(* Generic TLV reader.  lim = first position not belonging to the region   *)
(* being read, hard = the region end is a real end (enclosing definite     *)
(* length) rather than "no more input yet".                                *)
(* node = [c,f,n, indef, minlen, s (start), cs (content start), e (end,    *)
(*         exclusive), content (primitive) | kids (constructed)]           *)
(***************************************************************************)
Fail(hard) == [st |-> IF hard THEN "err" ELSE "short"]

RECURSIVE FirstLow(_, _, _)
FirstLow(b, p, lim) == IF p >= lim THEN 0 ELSE IF b[p] < 128 THEN p ELSE FirstLow(b, p + 1, lim)

ReadId(b, p, lim, hard) ==
  IF p >= lim THEN Fail(hard)
  ELSE LET o == b[p] IN
       IF o % 32 < 31 THEN [st |-> "ok", c |-> o \div 64, f |-> (o \div 32) % 2, n |-> NatToBig(o % 32), p |-> p + 1]
       ELSE LET q == FirstLow(b, p + 1, lim) IN
            IF q = 0 THEN Fail(hard)
            ELSE [st |-> "ok", c |-> o \div 64, f |-> (o \div 32) % 2,
                  n |-> FromBase128Digits(SubSeq(b, p + 1, q)), p |-> q + 1]

ReadLen(b, p, lim, hard) ==
  IF p >= lim THEN Fail(hard)
  ELSE LET o == b[p] IN
       IF o < 128 THEN [st |-> "ok", indef |-> FALSE, len |-> o, p |-> p + 1, minlen |-> TRUE]
       ELSE IF o = 128 THEN [st |-> "ok", indef |-> TRUE, len |-> 0, p |-> p + 1, minlen |-> TRUE]
       ELSE IF o = 255 THEN [st |-> "err"]
       ELSE LET k == o - 128 IN
            IF p + k >= lim THEN Fail(hard)
            ELSE LET raw == SubSeq(b, p + 1, p + k)
                     nb == BigNorm(raw)
                 IN IF ~BigFitsNat(nb) THEN Fail(hard)      \* more content than any input here holds
                    ELSE [st |-> "ok", indef |-> FALSE, len |-> BigToNat(nb), p |-> p + k + 1,
                          minlen |-> (Len(nb) = k /\ BigToNat(nb) >= 128)]

RECURSIVE TLV(_, _, _, _), KidsDef(_, _, _), KidsIndef(_, _, _, _)

TLV(b, p, lim, hard) ==
  LET id == ReadId(b, p, lim, hard) IN
  IF id.st # "ok" THEN [st |-> id.st] ELSE
  LET ln == ReadLen(b, id.p, lim, hard) IN
  IF ln.st # "ok" THEN [st |-> ln.st] ELSE
  IF ln.indef THEN
     IF id.f = 0 THEN [st |-> "err"]
     ELSE LET ks == KidsIndef(b, ln.p, lim, hard) IN
          IF ks.st # "ok" THEN [st |-> ks.st]
          ELSE [st |-> "ok", e |-> ks.e,
                node |-> [c |-> id.c, f |-> 1, n |-> id.n, indef |-> TRUE, minlen |-> TRUE,
                          s |-> p, cs |-> ln.p, e |-> ks.e, kids |-> ks.kids]]
  ELSE LET ce == ln.p + ln.len IN
     IF ce > lim THEN Fail(hard)
     ELSE IF id.f = 0
          THEN [st |-> "ok", e |-> ce,
                node |-> [c |-> id.c, f |-> 0, n |-> id.n, indef |-> FALSE, minlen |-> ln.minlen,
                          s |-> p, cs |-> ln.p, e |-> ce, content |-> SubSeq(b, ln.p, ce - 1)]]
          ELSE LET ks == KidsDef(b, ln.p, ce) IN
               IF ks.st # "ok" THEN [st |-> ks.st]
               ELSE [st |-> "ok", e |-> ce,
                     node |-> [c |-> id.c, f |-> 1, n |-> id.n, indef |-> FALSE, minlen |-> ln.minlen,
                               s |-> p, cs |-> ln.p, e |-> ce, kids |-> ks.kids]]

KidsDef(b, q, ce) ==
  IF q = ce THEN [st |-> "ok", kids |-> <<>>]
  ELSE LET t == TLV(b, q, ce, TRUE) IN
       IF t.st # "ok" THEN [st |-> t.st]
       ELSE LET r == KidsDef(b, t.e, ce) IN
            IF r.st # "ok" THEN [st |-> r.st] ELSE [st |-> "ok", kids |-> <<t.node>> \o r.kids]

KidsIndef(b, q, lim, hard) ==
  IF q >= lim THEN Fail(hard)
  ELSE IF b[q] = 0 THEN
          (IF q + 1 >= lim THEN Fail(hard)
           ELSE IF b[q + 1] = 0 THEN [st |-> "ok", kids |-> <<>>, e |-> q + 2]
           ELSE [st |-> "err"])            \* tag 0 with a non-zero length
  ELSE LET t == TLV(b, q, lim, hard) IN
       IF t.st # "ok" THEN [st |-> t.st]
       ELSE LET r == KidsIndef(b, t.e, lim, hard) IN
            IF r.st # "ok" THEN [st |-> r.st] ELSE [st |-> "ok", kids |-> <<t.node>> \o r.kids, e |-> r.e]

ReadTLV(b) == TLV(b, 1, Len(b) + 1, FALSE)

(***************************************************************************)
(* Interpretation of a TLV tree against a type                             *)
(***************************************************************************)
Err == [st |-> "err"]
Ok(v) == [st |-> "ok", v |-> v]

(* sub-identifiers of OID contents *)
RECURSIVE OidSubIds(_, _)
OidSubIds(c, p) ==   \* -> [st, ids]
  IF p > Len(c) THEN [st |-> "ok", ids |-> <<>>]
  ELSE LET q == FirstLow(c, p, Len(c) + 1) IN
       IF q = 0 \/ c[p] = 128 THEN Err
       ELSE LET r == OidSubIds(c, q + 1) IN
            IF r.st # "ok" THEN Err
            ELSE [st |-> "ok", ids |-> <<FromBase128Digits(SubSeq(c, p, q))>> \o r.ids]

OidFromContent(c) ==
  IF Len(c) = 0 THEN Err
  ELSE LET r == OidSubIds(c, 1) IN
       IF r.st # "ok" THEN Err
       ELSE LET x == r.ids[1] IN
            IF BigCmp(x, <<40>>) < 0 THEN Ok([arcs |-> << <<>>, x >> \o Tail(r.ids)])
            ELSE IF BigCmp(x, <<80>>) < 0 THEN Ok([arcs |-> << <<1>>, BigSub(x, <<40>>) >> \o Tail(r.ids)])
            ELSE Ok([arcs |-> << <<2>>, BigSub(x, <<80>>) >> \o Tail(r.ids)])

(* decimal number text -> natural; -1 when not all digits or empty *)
RECURSIVE DigitsToNat(_, _)
DigitsToNat(s, acc) ==
  IF Len(s) = 0 THEN acc
  ELSE IF Head(s) < 48 \/ Head(s) > 57 THEN -1
  ELSE DigitsToNat(Tail(s), acc * 10 + (Head(s) - 48))
DecNat(s) == IF Len(s) = 0 \/ Len(s) > 9 THEN -1 ELSE DigitsToNat(s, 0)

IndexOf(s, x) == LET I == {i \in 1..Len(s) : s[i] = x} IN IF I = {} THEN 0 ELSE CHOOSE i \in I : \A j \in I : i <= j

(* ISO 6093 NR3 restricted to an integral mantissa "digits.E exp" (what X.690 11.3.2 produces) *)
RealFromNR3(t) ==
  LET neg == Len(t) > 0 /\ t[1] = 45
      u == IF Len(t) > 0 /\ (t[1] = 45 \/ t[1] = 43) THEN Tail(t) ELSE t
      dot == IndexOf(u, 46)
      ee == IndexOf(u, 69)
  IN IF dot = 0 \/ ee # dot + 1 \/ ee = Len(u) THEN Err
     ELSE LET m == DecNat(SubSeq(u, 1, dot - 1))
              x == SubSeq(u, ee + 1, Len(u))
              xneg == x[1] = 45
              xd == IF x[1] = 45 \/ x[1] = 43 THEN Tail(x) ELSE x
              e == DecNat(xd)
          IN IF m < 0 \/ e < 0 THEN Err
             ELSE IF m = 0 THEN Ok([rk |-> "zero"])
             ELSE Ok(RealNorm([rk |-> "fin", m |-> IF neg THEN 0 - m ELSE m, b |-> 10, e |-> IF xneg THEN 0 - e ELSE e]))

RECURSIVE Pow2(_)
Pow2(n) == IF n = 0 THEN 1 ELSE 2 * Pow2(n - 1)

RealFromContent(c) ==
  IF Len(c) = 0 THEN Ok([rk |-> "zero"])
  ELSE LET fo == c[1] IN
  IF fo >= 128 THEN   \* binary encoding 8.5.7
     LET sign == (fo \div 64) % 2
         bb == (fo \div 16) % 4
         ff == (fo \div 4) % 4
         ec == fo % 4
         hdr == IF ec = 3 THEN 2 ELSE 1
         elen == IF ec = 3 THEN (IF Len(c) >= 2 THEN c[2] ELSE 0) ELSE ec + 1
     IN IF bb = 3 \/ elen = 0 \/ Len(c) < hdr + elen + 1 \/ elen > 4 THEN Err
        ELSE LET e0 == IntToSmall(FromTwosComplement(SubSeq(c, hdr + 1, hdr + elen)))
                 mb == BigNorm(SubSeq(c, hdr + elen + 1, Len(c)))
                 e2 == (IF bb = 0 THEN e0 ELSE IF bb = 1 THEN 3 * e0 ELSE 4 * e0)
             IN IF ~BigFitsNat(mb) \/ Len(mb) > 3 THEN Err
                ELSE IF Len(mb) = 0 THEN Ok([rk |-> "zero"])
                ELSE LET m == BigToNat(mb) * Pow2(ff)
                     IN Ok(RealNorm([rk |-> "fin", m |-> IF sign = 1 THEN 0 - m ELSE m, b |-> 2, e |-> e2]))
  ELSE IF fo = 64 /\ Len(c) = 1 THEN Ok([rk |-> "pinf"])
  ELSE IF fo = 65 /\ Len(c) = 1 THEN Ok([rk |-> "minf"])
  ELSE IF fo = 3 THEN RealFromNR3(Tail(c))
  ELSE Err

RECURSIVE OctetsOfNode(_, _, _), BitsOfNode(_, _, _)
(* contents of an (octet-aligned) string node, primitive or constructed; univ = fragment tag *)
OctetsOfNode(r, nd, top) ==
  IF nd.f = 0 THEN Ok(nd.content)
  ELSE IF r = "DER" THEN Err
  ELSE LET parts == [i \in 1..Len(nd.kids) |->
                       IF nd.kids[i].c = 0 /\ nd.kids[i].n = <<4>> THEN OctetsOfNode(r, nd.kids[i], FALSE) ELSE Err]
       IN IF \E i \in 1..Len(parts) : parts[i].st # "ok" THEN Err
          ELSE Ok(Flat([i \in 1..Len(parts) |-> parts[i].v]))

BitsOfPrimitive(c) ==
  IF Len(c) = 0 \/ c[1] > 7 \/ (Len(c) = 1 /\ c[1] # 0) THEN Err
  ELSE LET bits == BitsOfBytes(Tail(c)) IN Ok([unused |-> c[1], bits |-> Take(bits, Len(bits) - c[1])])

BitsOfNode(r, nd, top) ==   \* -> Ok([unused, bits])
  IF nd.f = 0 THEN BitsOfPrimitive(nd.content)
  ELSE IF r = "DER" THEN Err
  ELSE LET parts == [i \in 1..Len(nd.kids) |->
                       IF nd.kids[i].c = 0 /\ nd.kids[i].n = <<3>> THEN BitsOfNode(r, nd.kids[i], FALSE) ELSE Err]
       IN IF \E i \in 1..Len(parts) : parts[i].st # "ok" THEN Err
          ELSE IF \E i \in 1..(Len(parts) - 1) : parts[i].v.unused # 0 THEN Err
          ELSE Ok([unused |-> IF Len(parts) = 0 THEN 0 ELSE parts[Len(parts)].v.unused,
                   bits |-> Flat([i \in 1..Len(parts) |-> parts[i].v.bits])])

RECURSIVE Interp(_, _, _, _), InterpBody(_, _, _, _), InterpTagged(_, _, _, _, _, _), OuterTagSet(_),
          MatchSeq(_, _, _, _, _, _), InterpAll(_, _, _, _)

(* the set of <<class, number>> a value of T can start with; {} stands for "anything" (untagged ANY) *)
OuterTagSet(T) ==
  LET ts == TagsOf(T) IN
  IF Len(ts) > 0 THEN {<<ts[1].c, ts[1].n>>}
  ELSE IF T.k = "any" THEN {}
  ELSE UNION {OuterTagSet(T.alts[i].t) : i \in 1..Len(T.alts)}
Accepts(T, nd) == LET s == OuterTagSet(T) IN s = {} \/ <<nd.c, nd.n>> \in s

Interp(r, b, T, nd) ==
  LET ts == TagsOf(T) IN
  IF Len(ts) = 0 THEN InterpBody(r, b, T, nd) ELSE InterpTagged(r, b, T, ts, 1, nd)

InterpTagged(r, b, T, ts, i, nd) ==
  IF nd.c # ts[i].c \/ nd.n # ts[i].n THEN Err
  ELSE IF r = "DER" /\ nd.indef THEN Err
  ELSE IF i < Len(ts) \/ T.k = "choice" \/ (T.k = "any" /\ ts[i].f = 1)
       THEN \* an explicit wrapper: constructed, exactly one element inside
            IF nd.f # 1 THEN Err
            ELSE IF i < Len(ts)
                 THEN (IF Len(nd.kids) # 1 THEN Err ELSE InterpTagged(r, b, T, ts, i + 1, nd.kids[1]))
                 ELSE IF T.k = "choice"
                      THEN (IF Len(nd.kids) # 1 THEN Err ELSE InterpBody(r, b, T, nd.kids[1]))
                      ELSE \* explicitly tagged ANY: the raw contents
                           Ok([o |-> SubSeq(b, nd.cs, IF nd.indef THEN nd.e - 3 ELSE nd.e - 1)])
       ELSE InterpBody(r, b, T, nd)

InterpAll(r, b, T, kids) ==    \* every kid as a value of T -> [st, vs]
  LET rs == [i \in 1..Len(kids) |-> Interp(r, b, T, kids[i])]
  IN IF \E i \in 1..Len(rs) : rs[i].st # "ok" THEN Err ELSE Ok([i \in 1..Len(rs) |-> rs[i].v])

(* SEQUENCE: components in order, OPTIONAL/DEFAULT may be skipped; acc = values so far *)
MatchSeq(r, b, T, kids, i, acc) ==
  IF i > Len(T.comps) THEN (IF Len(kids) = 0 THEN Ok([cs |-> acc]) ELSE Err)
  ELSE LET cp == T.comps[i] IN
       IF Len(kids) > 0 /\ Accepts(cp.t, kids[1])
       THEN LET x == Interp(r, b, cp.t, kids[1]) IN
            IF x.st # "ok" THEN Err
            ELSE MatchSeq(r, b, T, Tail(kids), i + 1, Append(acc, [p |-> TRUE, v |-> x.v]))
       ELSE IF cp.mode = "opt" THEN MatchSeq(r, b, T, kids, i + 1, Append(acc, [p |-> FALSE]))
       ELSE IF cp.mode = "def" THEN MatchSeq(r, b, T, kids, i + 1, Append(acc, [p |-> TRUE, v |-> Norm(cp.t, cp.dflt)]))
       ELSE Err

InterpBody(r, b, T, nd) ==
  IF r = "DER" /\ nd.indef THEN Err ELSE
  CASE T.k = "bool" ->
         IF nd.f # 0 \/ Len(nd.content) # 1 THEN Err
         ELSE IF r \in {"CER", "DER"} /\ nd.content[1] \notin {0, 255} THEN Err
         ELSE Ok([b |-> nd.content[1] # 0])
    [] T.k \in IntKinds -> IF nd.f # 0 \/ Len(nd.content) = 0 THEN Err ELSE Ok(FromTwosComplement(nd.content))
    [] T.k = "null" -> IF nd.f # 0 \/ Len(nd.content) # 0 THEN Err ELSE Ok([nul |-> 0])
    [] T.k = "oid" -> IF nd.f # 0 THEN Err ELSE OidFromContent(nd.content)
    [] T.k = "real" -> IF nd.f # 0 THEN Err ELSE RealFromContent(nd.content)
    [] T.k \in OctetStringKinds -> LET x == OctetsOfNode(r, nd, TRUE) IN IF x.st # "ok" THEN Err ELSE Ok([o |-> x.v])
    [] T.k = "bits" -> LET x == BitsOfNode(r, nd, TRUE) IN IF x.st # "ok" THEN Err ELSE Ok([bits |-> x.v.bits])
    [] T.k = "any" ->
         IF Len(TagsOf(T)) = 0 THEN Ok([o |-> SubSeq(b, nd.s, nd.e - 1)])          \* the complete TLV
         ELSE IF nd.f = 0 THEN Ok([o |-> nd.content])                               \* implicitly tagged: contents
         ELSE Ok([o |-> SubSeq(b, nd.cs, IF nd.indef THEN nd.e - 3 ELSE nd.e - 1)])
    [] T.k = "choice" ->
         LET I == {i \in 1..Len(T.alts) : Accepts(T.alts[i].t, nd)} IN
         IF I = {} THEN Err
         ELSE LET a == CHOOSE i \in I : \A j \in I : i <= j
                  x == Interp(r, b, T.alts[a].t, nd)
              IN IF x.st # "ok" THEN Err ELSE Ok([alt |-> a, v |-> x.v])
    [] T.k = "seqof" -> IF nd.f # 1 THEN Err
                        ELSE LET x == InterpAll(r, b, T.of, nd.kids) IN IF x.st # "ok" THEN Err ELSE Ok([es |-> x.v])
    [] T.k = "setof" ->
         IF nd.f # 1 THEN Err
         ELSE LET x == InterpAll(r, b, T.of, nd.kids) IN
              IF x.st # "ok" THEN Err ELSE Ok(Norm(T, [es |-> x.v]))
    [] T.k = "seq" -> IF nd.f # 1 THEN Err ELSE MatchSeq(r, b, T, nd.kids, 1, <<>>)
    [] T.k = "set" ->
         IF nd.f # 1 THEN Err
         ELSE LET n == Len(T.comps)
                  who(j) == {i \in 1..n : Accepts(T.comps[i].t, nd.kids[j])}
                  K == 1..Len(nd.kids)
              IN IF \E j \in K : Cardinality(who(j)) # 1 THEN Err
                 ELSE LET owner == [j \in K |-> CHOOSE i \in who(j) : TRUE] IN
                 IF \E j1, j2 \in K : j1 # j2 /\ owner[j1] = owner[j2] THEN Err
                 ELSE LET kidOf(i) == CHOOSE j \in K : owner[j] = i
                          has(i) == \E j \in K : owner[j] = i
                          rs == [i \in 1..n |-> IF has(i) THEN Interp(r, b, T.comps[i].t, nd.kids[kidOf(i)]) ELSE [st |-> "ok"]]
                      IN IF \E i \in 1..n : rs[i].st # "ok" THEN Err
                         ELSE IF \E i \in 1..n : ~has(i) /\ T.comps[i].mode = "req" THEN Err
                         ELSE Ok([cs |-> [i \in 1..n |->
                                    IF has(i) THEN [p |-> TRUE, v |-> rs[i].v]
                                    ELSE IF T.comps[i].mode = "def" THEN [p |-> TRUE, v |-> Norm(T.comps[i].t, T.comps[i].dflt)]
                                    ELSE [p |-> FALSE]]])

(* the reference reader: one value of T from the front of b *)
Parse(r, T, b) ==
  LET t == ReadTLV(b) IN
  IF t.st # "ok" THEN [st |-> t.st]
  ELSE LET x == Interp(r, b, T, t.node) IN
       IF x.st # "ok" THEN [st |-> "err"]
       ELSE [st |-> "ok", v |-> x.v, rest |-> SubSeq(b, t.e, Len(b))]

ParsesTo(r, T, b, v, rest) ==
  LET x == Parse(r, T, b) IN x.st = "ok" /\ x.v = Norm(T, v) /\ x.rest = rest

(* the identifier octets an encoding starts with, outermost to innermost, following   *)
(* single-element constructed wrappers: sequence of [c,f,n] (C13)                     *)
RECURSIVE HeaderChain(_, _)
HeaderChain(nd, k) ==
  IF k = 0 THEN <<>>
  ELSE <<MkTag(nd.c, nd.f, nd.n)>> \o (IF k > 1 /\ nd.f = 1 /\ Len(nd.kids) >= 1 THEN HeaderChain(nd.kids[1], k - 1) ELSE <<>>)

(***************************************************************************)
(* Scalar leaves of a value in the order its components are declared,      *)
(* leaving out absent components and DEFAULT components equal to their     *)
(* default (they are not on the wire).  C16.                               *)
(***************************************************************************)
RECURSIVE Leaves(_, _), HasSetLike(_)
Leaves(T, v) ==
  CASE T.k \in {"seq", "set"} ->
         Flat([i \in 1..Len(T.comps) |->
                 IF ~v.cs[i].p THEN <<>>
                 ELSE IF T.comps[i].mode = "def" /\ Norm(T.comps[i].t, v.cs[i].v) = Norm(T.comps[i].t, T.comps[i].dflt) THEN <<>>
                 ELSE Leaves(T.comps[i].t, v.cs[i].v)])
    [] T.k \in {"seqof", "setof"} -> Flat([i \in 1..Len(v.es) |-> Leaves(T.of, v.es[i])])
    [] T.k = "choice" -> Leaves(T.alts[v.alt].t, v.v)
    [] OTHER -> << Norm(T, v) >>
HasSetLike(T) ==
  CASE T.k \in {"set", "setof"} -> TRUE
    [] T.k = "seq" -> \E i \in 1..Len(T.comps) : HasSetLike(T.comps[i].t)
    [] T.k = "seqof" -> HasSetLike(T.of)
    [] T.k = "choice" -> \E i \in 1..Len(T.alts) : HasSetLike(T.alts[i].t)
    [] OTHER -> FALSE
RECURSIVE NoImplicit(_)
NoImplicit(T) ==     \* the encoding of T is self-describing: universal tags and EXPLICIT tagging only, no ANY
  /\ T.k # "any"
  /\ \A i \in 1..Len(T.tags) : T.tags[i].m = "E"
  /\ CASE T.k \in {"seq", "set"} -> \A i \in 1..Len(T.comps) : NoImplicit(T.comps[i].t)
       [] T.k \in {"seqof", "setof"} -> NoImplicit(T.of)
       [] T.k = "choice" -> \A i \in 1..Len(T.alts) : NoImplicit(T.alts[i].t)
       [] OTHER -> TRUE
CountIn(s, x) == Cardinality({i \in 1..Len(s) : s[i] = x})
BagEq(a, b) == Len(a) = Len(b) /\ \A i \in 1..Len(a) : CountIn(a, a[i]) = CountIn(b, a[i])
=============================================================================
