-------------------------- MODULE DecoderSMProofs ---------------------------
(* Machine-checked (TLAPS) for ALL frames, not only the reachable ones of the bounded model: *)
(* every in-frame step of the dispatch walk strictly increases the rank, hence a frame takes *)
(* at most 7 steps whatever the tag, the guide and the outcome of the look-ups are.          *)
EXTENDS DecoderSM, TLAPS

Frames == [st : States \ {"Stop", "Error"}, spec : Specs, tag : [c : 0..3, k : 0..1, n : Nat]]
Envs == [chosen : BOOLEAN, concrete : BOOLEAN]

THEOREM RankStrictlyIncreases ==
  \A f \in Frames, env \in Envs : Rank(NextState(f, env)) > Rank(f.st)
<1> SUFFICES ASSUME NEW f \in Frames, NEW env \in Envs PROVE Rank(NextState(f, env)) > Rank(f.st)
  OBVIOUS
<1>1. f.st \in {"Tag", "Length", "Get", "ByTag", "BySpec", "Explicit", "Value", "Raw"}
  BY DEF Frames, States
<1>2. CASE f.st = "Tag" BY <1>2 DEF NextState, Rank
<1>3. CASE f.st = "Length" BY <1>3 DEF NextState, Rank
<1>4. CASE f.st = "Get" BY <1>4 DEF NextState, Rank
<1>5. CASE f.st = "ByTag" BY <1>5 DEF NextState, Rank
<1>6. CASE f.st = "BySpec" BY <1>6 DEF NextState, Rank
<1>7. CASE f.st = "Explicit" BY <1>7 DEF NextState, Rank
<1>8. CASE f.st = "Value" BY <1>8 DEF NextState, Rank
<1>9. CASE f.st = "Raw" BY <1>9 DEF NextState, Rank
<1> QED BY <1>1, <1>2, <1>3, <1>4, <1>5, <1>6, <1>7, <1>8, <1>9

THEOREM RankBounded == \A s \in States : Rank(s) \in 0..7
  BY DEF States, Rank
=============================================================================
