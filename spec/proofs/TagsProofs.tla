----------------------------- MODULE TagsProofs ------------------------------
(* TLAPS: the two laws of C13's last sentence for tag sets of ANY length and ANY tag, not only those of the bounded model *)
EXTENDS Tags, TLAPS

TagRec == [c : 0..3, k : 0..1, n : Nat]

THEOREM ImplicitReplacesOnlyTheOutermost ==
  \A s \in Seq(TagRec), t \in TagRec :
     s # <<>> =>
       LET r == Apply(s, [o |-> "I", t |-> t]) IN
         /\ r.ok
         /\ Len(r.s) = Len(s)
         /\ \A i \in 1..(Len(s) - 1) : r.s[i] = s[i]
         /\ r.s[Len(s)].k = s[Len(s)].k              \* the form is kept
         /\ r.s[Len(s)].c = t.c /\ r.s[Len(s)].n = t.n
  BY DEF Apply, Tag, TagRec

THEOREM ExplicitAddsOneConstructedTag ==
  \A s \in Seq(TagRec), t \in TagRec :
     LET r == Apply(s, [o |-> "E", t |-> t]) IN
       /\ (t.c = 0 => ~r.ok)                        \* UNIVERSAL refused
       /\ (t.c # 0 => /\ r.ok
                      /\ Len(r.s) = Len(s) + 1
                      /\ \A i \in 1..Len(s) : r.s[i] = s[i]
                      /\ r.s[Len(s) + 1] = [c |-> t.c, k |-> 1, n |-> t.n])
  BY DEF Apply, Tag, TagRec, Refused
=============================================================================
