----------------------------- MODULE StreamMech -----------------------------
(***************************************************************************)
(* MECHANISM LAYER of the streaming decoder: the read protocol every       *)
(* payload decoder of pyasn1 is written against (codec/streaming.py        *)
(* readFromStream / isEndOfStream, driven by SingleItemDecoder):           *)
(*   - read n octets; if the source delivers fewer (or none yet) the       *)
(*     position is restored and an underrun is yielded; the next poll      *)
(*     repeats the same read;                                              *)
(*   - an empty read from a closed source raises end-of-stream;            *)
(*   - between items the end-of-stream probe decides stop / continue;      *)
(*   - the reader may pick ANY read plan inside the current item.          *)
(* TLC checks that this refines the ideal layer (PROPERTY Refines) for     *)
(* every read plan and every arrival schedule.                             *)
(* Named deviations (Devs) are confirmed defects of the real code:         *)
(*   "F7"  a short read from a closed source is rewound and reported as    *)
(*         underrun (for ever) instead of end-of-stream                    *)
(***************************************************************************)
EXTENDS Naturals, Sequences, FiniteSets, TLC

CONSTANTS Ends, Extra, CanSay, Devs

VARIABLES avail, closed, item, obs, polls,
          pos,      \* read position of the decoder in the source
          req,      \* size of the read being attempted (0 = none pending)
          run       \* a poll is executing
mvars == <<avail, closed, item, obs, polls, pos, req, run>>

Ideal == INSTANCE StreamIdeal
EndOf(e, i) == Ideal!EndOf(e, i)
Total == Ideal!Total
N == Ideal!N
Final(o) == Ideal!Final(o)

AtBoundary == pos = EndOf(Ends, item - 1)
MaxRead == IF item <= N THEN Ends[item] - pos ELSE (Total - pos) + 1

MechInit == Ideal!IdealInit /\ pos = 0 /\ req = 0 /\ run = FALSE

MArrive(k) == ~run /\ Ideal!Arrive(k) /\ UNCHANGED <<pos, req, run>>
MClose == ~run /\ Ideal!Close /\ UNCHANGED <<pos, req, run>>

StartPoll == ~run /\ ~Final(obs) /\ run' = TRUE /\ UNCHANGED <<avail, closed, item, obs, polls, pos, req>>

Yield(o) == obs' = o /\ run' = FALSE /\ polls' = 1 - polls

(* end-of-stream probe between items: read(1); nothing there -> stop / no data yet *)
Probe == /\ run /\ req = 0 /\ AtBoundary /\ pos = avail
         /\ Yield(IF closed \/ ~CanSay THEN "stop" ELSE "underrun")
         /\ UNCHANGED <<avail, closed, item, pos, req>>

(* the reader decides how many octets it wants next: any amount inside the current item *)
Choose == /\ run /\ req = 0 /\ ~(AtBoundary /\ pos = avail)
          /\ \E n \in 1..MaxRead : req' = n
          /\ UNCHANGED <<avail, closed, item, obs, polls, pos, run>>

ReadOk == /\ run /\ req > 0 /\ avail - pos >= req
          /\ pos' = pos + req /\ req' = 0
          /\ IF item <= N /\ pos + req = Ends[item]
               THEN item' = item + 1 /\ Yield("obj")
               ELSE UNCHANGED <<item, obs, run, polls>>
          /\ UNCHANGED <<avail, closed>>

(* short read: rewind (position unchanged), report underrun; the same read is retried by the next poll *)
ReadShort == /\ run /\ req > 0 /\ 0 < avail - pos /\ avail - pos < req
             /\ IF closed /\ "F7" \notin Devs THEN Yield("eos") ELSE Yield("underrun")
             /\ UNCHANGED <<avail, closed, item, pos, req>>

ReadNone == /\ run /\ req > 0 /\ avail = pos /\ ~closed /\ CanSay /\ Yield("underrun")
            /\ UNCHANGED <<avail, closed, item, pos, req>>

ReadEof == /\ run /\ req > 0 /\ avail = pos /\ (closed \/ ~CanSay) /\ Yield("eos")
           /\ UNCHANGED <<avail, closed, item, pos, req>>

MechNext == (\E k \in 1..Total : MArrive(k)) \/ MClose \/ StartPoll \/ Probe \/ Choose
            \/ ReadOk \/ ReadShort \/ ReadNone \/ ReadEof
MechSpec == MechInit /\ [][MechNext]_mvars

Refines == Ideal!IdealSpec

(* mechanism-level invariants *)
PosInsideItem == /\ pos >= EndOf(Ends, item - 1) /\ pos <= avail
                 /\ (item <= N => pos <= Ends[item])
PosAtItemEnd == [][(obs' = "obj" /\ polls' # polls) => pos' = Ends[item]]_mvars      \* C07, streaming clause
RetryRepeatsRead == [][(run /\ ~run' /\ obs' = "underrun" /\ req > 0) => (req' = req /\ pos' = pos)]_mvars
PollBound == polls <= 30
=============================================================================
