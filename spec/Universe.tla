------------------------------ MODULE Universe ------------------------------
(***************************************************************************)
(* The bounded type/value universe U that TLC enumerates: boundary-biased  *)
(* values of every base kind, tag stacks, and container shapes of nesting  *)
(* depth <= 2 built from a pool of tagged scalars.  The sizes are set by   *)
(* the constants (overridden per tier in the MC modules).                  *)
(***************************************************************************)
EXTENDS X690

CONSTANTS
  UKinds,        \* scalar kinds enumerated at top level
  UTagNums,      \* set of BigNat tag numbers used in tag stacks
  UMaxStack,     \* maximal tag-stack depth for scalars
  UClasses,      \* tag classes used (subset of 1..3)
  UShapes,       \* which container shapes are enumerated (set of strings)
  UPool          \* how many entries of each component pool are used (1..3)

B(n) == NatToBig(n)
I(i) == SmallInt(i)
Pow256(k) == <<1>> \o Rep(0, k)                 \* 256^k as BigNat

IntVals ==
  { I(0), I(1), I(-1), I(127), I(128), I(-128), I(-129), I(255), I(256), I(-256),
    I(32767), I(32768), I(-32768), I(-32769), I(8388607), I(8388608), I(-8388608), I(-8388609),
    [neg |-> FALSE, mag |-> <<127, 255, 255, 255, 255, 255, 255, 255>>],     \*  2^63-1
    [neg |-> FALSE, mag |-> <<128, 0, 0, 0, 0, 0, 0, 0>>],                   \*  2^63
    [neg |-> TRUE,  mag |-> <<128, 0, 0, 0, 0, 0, 0, 0>>],                   \* -2^63
    [neg |-> TRUE,  mag |-> <<128, 0, 0, 0, 0, 0, 0, 1>>],                   \* -2^63-1
    [neg |-> FALSE, mag |-> Pow256(8)], [neg |-> TRUE, mag |-> Pow256(9)] }
IntFew == { I(0), I(-129), I(256) }

BitVals ==
  { <<>>, <<1>>, <<0>>, <<1, 0, 1>>, <<1, 1, 1, 1, 1, 1, 1>>, <<1, 0, 1, 0, 1, 0, 1, 0>>,
    <<0, 0, 0, 0, 0, 0, 0, 0>>, <<1, 0, 0, 0, 0, 0, 0, 0, 1>>, <<0, 0, 0, 0, 0, 0, 0, 0, 1>>,
    <<0, 0, 0, 0, 0, 0, 0, 0, 0, 0, 0, 0, 0, 0, 0, 0, 1, 1>>,
    <<1, 1, 1, 1, 0, 0, 0, 0, 1, 0, 1, 0, 0, 1, 0, 1>>,
    <<1, 1, 1, 1, 0, 0, 0, 0, 1, 0, 1, 0, 0, 1, 0, 1, 1, 0, 0>> }
BitFew == { <<>>, <<1, 0, 1>>, <<1, 0, 0, 0, 0, 0, 0, 0, 1>> }

OctVals == { <<>>, <<0>>, <<255>>, <<1, 2, 3>>, <<97, 98, 99, 100, 101, 102, 103>>, <<0, 0>> }
AsciiVals == { <<>>, <<97>>, <<97, 98, 99>>, <<72, 101, 108, 108, 111, 32, 119>> }
StringVals(k) ==
  CASE k = "octs" -> OctVals
    [] k = "numeric" -> { <<>>, <<49>>, <<49, 50, 32, 51>>, <<48, 49, 50, 51, 52, 53, 54>> }
    [] k = "utf8" -> AsciiVals \cup { <<195, 169>>, <<97, 226, 130, 172, 98>> }
    [] k = "bmp" -> { <<>>, <<0, 97>>, <<0, 97, 4, 16>>, <<0, 97, 0, 98, 0, 99, 32, 172>> }
    [] k = "universal" -> { <<>>, <<0, 0, 0, 97>>, <<0, 0, 0, 97, 0, 1, 244, 0>> }
    [] k = "gentime" -> { <<50, 48, 49, 55, 48, 56, 48, 49, 49, 50, 48, 49, 49, 50, 90>>,
                          <<50, 48, 49, 55, 48, 56, 48, 49, 49, 50, 48, 49, 49, 50, 46, 53, 90>> }
    [] k = "utctime" -> { <<49, 55, 48, 56, 48, 49, 49, 50, 48, 49, 49, 50, 90>> }
    [] k \in {"t61", "videotex", "graphic", "general"} -> AsciiVals \cup { <<233>> }
    [] OTHER -> AsciiVals

OidVals ==
  { <<B(0), B(0)>>, <<B(0), B(39)>>, <<B(1), B(0)>>, <<B(1), B(39)>>, <<B(2), B(0)>>, <<B(2), B(40)>>,
    <<B(2), B(47)>>, <<B(2), B(999)>>, <<B(1), B(3), B(6), B(1)>>, <<B(2), B(5), B(127)>>,
    <<B(2), B(5), B(128)>>, <<B(1), B(2), B(16383)>>, <<B(1), B(2), B(16384), B(0)>>,
    <<B(1), B(2), Pow256(4)>>, <<B(2), Pow256(4), B(1)>>, <<B(2), <<255, 255, 255, 255>> >> }
OidFew == { <<B(1), B(3), B(6), B(1)>>, <<B(2), B(999)>> }

Fin(m, b, e) == [rk |-> "fin", m |-> m, b |-> b, e |-> e]
RealVals ==
  { [rk |-> "zero"], [rk |-> "pinf"], [rk |-> "minf"],
    Fin(1, 2, 0), Fin(3, 2, -1), Fin(-5, 2, 3), Fin(4, 2, 0), Fin(1, 2, 127), Fin(1, 2, 128),
    Fin(1, 2, -128), Fin(1, 2, -129), Fin(255, 2, 32767), Fin(257, 2, 32768), Fin(-1, 2, -32769),
    Fin(3, 2, 8388608), Fin(65537, 2, -1000),
    Fin(5, 10, 0), Fin(-15, 10, -1), Fin(1, 10, -1), Fin(10, 10, 1), Fin(123, 10, 11), Fin(25, 10, -2) }
RealFew == { [rk |-> "zero"], Fin(3, 2, -1), Fin(-5, 2, 3) }

AnyVals == { <<5, 0>>, <<2, 1, 5>>, <<4, 2, 1, 2>>, <<48, 3, 2, 1, 1>> }

ScalarValues(k) ==
  CASE k = "bool" -> {[b |-> TRUE], [b |-> FALSE]}
    [] k = "int" -> IntVals
    [] k = "enum" -> { I(0), I(1), I(-1), I(128), I(-129) }
    [] k = "bits" -> {[bits |-> x] : x \in BitVals}
    [] k = "null" -> {[nul |-> 0]}
    [] k = "oid" -> {[arcs |-> x] : x \in OidVals}
    [] k = "real" -> RealVals
    [] k = "any" -> {[o |-> x] : x \in AnyVals}
    [] OTHER -> {[o |-> x] : x \in StringVals(k)}

FewValues(k) ==
  CASE k = "bool" -> {[b |-> TRUE], [b |-> FALSE]}
    [] k = "int" -> IntFew
    [] k = "bits" -> {[bits |-> x] : x \in BitFew}
    [] k = "oid" -> {[arcs |-> x] : x \in OidFew}
    [] k = "real" -> RealFew
    [] k = "octs" -> { [o |-> <<>>], [o |-> <<1, 2, 3>>] }
    [] k = "null" -> {[nul |-> 0]}
    [] k = "enum" -> { I(1) }
    [] OTHER -> { CHOOSE x \in ScalarValues(k) : Len(x.o) > 0 }

(***************************************************************************)
(* Tag stacks                                                              *)
(***************************************************************************)
TagOps == { [m |-> m, c |-> c, n |-> n] : m \in {"I", "E"}, c \in UClasses, n \in UTagNums }
RECURSIVE StacksUpTo(_)
StacksUpTo(d) == IF d = 0 THEN { <<>> } ELSE StacksUpTo(d - 1) \cup { Append(s, op) : s \in StacksUpTo(d - 1), op \in TagOps }
Stacks == { s \in StacksUpTo(UMaxStack) : Len(s) = 0 \/ Len(s) = UMaxStack \/ TRUE }

Sc(k, tags) == [k |-> k, tags |-> tags]
ScalarTypes == { Sc(k, s) : k \in UKinds, s \in Stacks }

(* stacks legal on ANY/CHOICE: ASN.1 turns IMPLICIT into EXPLICIT there, so the first op is E *)
OpenStacks == { s \in Stacks : Len(s) = 0 \/ s[1].m = "E" }

Ctx(n) == [m |-> "I", c |-> 2, n |-> B(n)]
CtxE(n) == [m |-> "E", c |-> 2, n |-> B(n)]

(***************************************************************************)
(* Container shapes.  Pool = small tagged scalars used as components.      *)
(***************************************************************************)
Pool == { Sc("int", <<>>), Sc("octs", <<>>), Sc("bool", <<>>), Sc("null", <<>>),
          Sc("bits", <<Ctx(5)>>), Sc("int", <<CtxE(6)>>), Sc("utf8", <<>>), Sc("oid", <<>>), Sc("real", <<>>) }
FirstN(s) == { s[i] : i \in 1..Min2(UPool, Len(s)) }
PoolA == FirstN(<< Sc("int", <<>>), Sc("octs", <<CtxE(1)>>), Sc("bool", <<>>) >>)
PoolB == FirstN(<< Sc("octs", <<>>), Sc("int", <<Ctx(0)>>), Sc("null", <<>>) >>)
PoolC == FirstN(<< Sc("bool", <<Ctx(2)>>), Sc("int", <<[m |-> "E", c |-> 1, n |-> B(31)]>>), Sc("oid", <<>>) >>)
OuterStacks == FirstN(<< <<>>, <<CtxE(4)>>, <<Ctx(3)>> >>)

Comp(name, t, mode) == [name |-> name, t |-> t, mode |-> mode]
CompD(name, t, d) == [name |-> name, t |-> t, mode |-> "def", dflt |-> d]

SeqLike(k, a, b, c, ma, mb, tags) ==
  [k |-> k, tags |-> tags,
   comps |-> << Comp("a", a, ma), Comp("b", b, mb),
                CompD("c", c, CHOOSE x \in FewValues(c.k) : TRUE) >>]

DistinctOuter(ts) == \A i, j \in 1..Len(ts) : i # j => OuterTagSet(ts[i]) \cap OuterTagSet(ts[j]) = {}

RecordTypes(k) ==
  { SeqLike(k, a, b, c, ma, mb, tags) :
      a \in PoolA, b \in PoolB, c \in PoolC, ma \in {"req", "opt"}, mb \in {"req", "opt"},
      tags \in OuterStacks }

OfTypes(k) == { [k |-> k, tags |-> tags, of |-> t] : t \in Pool, tags \in OuterStacks }

ChoiceOf(a, b, tags) == [k |-> "choice", tags |-> tags, alts |-> << [name |-> "x", t |-> a], [name |-> "y", t |-> b] >>]
ChoiceTypes == { ChoiceOf(a, b, tags) : a \in PoolA, b \in PoolB, tags \in { <<>>, <<CtxE(7)>>, <<CtxE(7), Ctx(8)>> } }

(* depth 2 *)
InnerSeq == SeqLike("seq", Sc("int", <<>>), Sc("octs", <<>>), Sc("bool", <<Ctx(2)>>), "req", "opt", <<>>)
InnerChoice == ChoiceOf(Sc("int", <<>>), Sc("octs", <<>>), <<>>)
InnerChoiceT == ChoiceOf(Sc("int", <<Ctx(0)>>), Sc("null", <<>>), <<CtxE(9)>>)
InnerOf == [k |-> "seqof", tags |-> <<>>, of |-> Sc("int", <<>>)]
InnerSetOf == [k |-> "setof", tags |-> <<>>, of |-> Sc("octs", <<>>)]
Route == [k |-> "seq", tags |-> <<>>, comps |-> << Comp("x", Sc("int", <<>>), "req"), Comp("y", Sc("bool", <<>>), "req") >>]
Deep ==
  { [k |-> "seqof", tags |-> <<>>, of |-> InnerSeq],
    [k |-> "setof", tags |-> <<>>, of |-> InnerChoice],
    [k |-> "seqof", tags |-> <<CtxE(1)>>, of |-> InnerOf],
    [k |-> "seq", tags |-> <<>>, comps |-> << Comp("p", InnerChoice, "req"), Comp("q", InnerOf, "opt"), Comp("r", InnerChoiceT, "opt") >>],
    [k |-> "set", tags |-> <<>>, comps |-> << Comp("p", InnerChoiceT, "req"), Comp("q", InnerSetOf, "req"), Comp("r", Sc("bool", <<>>), "opt") >>],
    [k |-> "set", tags |-> <<>>, comps |-> << Comp("p", InnerChoice, "req"), Comp("q", Sc("bool", <<>>), "req") >>],
    [k |-> "choice", tags |-> <<>>, alts |-> << [name |-> "u", t |-> InnerChoice], [name |-> "w", t |-> InnerSeq], [name |-> "z", t |-> Sc("bool", <<>>)] >>],
    [k |-> "seq", tags |-> <<>>, comps |-> << Comp("p", Sc("any", <<>>), "req"), Comp("q", Sc("any", <<CtxE(1)>>), "opt"), Comp("r", Sc("int", <<>>), "opt") >>],
    [k |-> "seq", tags |-> <<>>, comps |-> << Comp("p", Sc("int", <<>>), "opt"), Comp("q", Sc("int", <<Ctx(0)>>), "opt"), Comp("r", Sc("int", <<Ctx(1)>>), "opt") >>],
    \* several multi-octet identifiers with the same leading octet in one encoding
    [k |-> "seq", tags |-> <<>>, comps |-> << Comp("p", Sc("int", <<Ctx(31)>>), "req"), Comp("q", Sc("octs", <<Ctx(1000)>>), "req"),
                                              Comp("r", Sc("int", <<CtxE(31)>>), "opt"), Comp("s", InnerOf, "opt") >>],
    [k |-> "set", tags |-> <<CtxE(128)>>, comps |-> << Comp("p", Sc("bool", <<CtxE(200)>>), "req"), Comp("q", Sc("null", <<Ctx(100)>>), "req"),
                                              Comp("r", Sc("int", <<[m |-> "I", c |-> 1, n |-> B(5)]>>), "req") >>],
    [k |-> "seqof", tags |-> <<>>, of |-> Sc("bits", <<CtxE(31)>>)],
    \* different explicit high tags of one class (self-describing)
    [k |-> "seq", tags |-> <<>>, comps |-> << Comp("p", Sc("int", <<CtxE(40)>>), "req"), Comp("q", Sc("octs", <<CtxE(41)>>), "req"),
                                              Comp("r", Sc("bool", <<CtxE(1000)>>), "opt") >>],
    \* mandatory members with empty constructed contents next to OPTIONAL ones
    [k |-> "seq", tags |-> <<>>, comps |-> << Comp("o", Sc("int", <<>>), "opt"), Comp("m", InnerOf, "req"),
                                              Comp("n", [k |-> "seq", tags |-> <<Ctx(1)>>, comps |-> << Comp("x", InnerSetOf, "req") >>], "opt") >>],
    \* SET whose canonical order depends on the alternative chosen in an untagged CHOICE member
    [k |-> "set", tags |-> <<>>, comps |-> << Comp("p", ChoiceOf(Sc("int", <<>>), Sc("utf8", <<>>), <<>>), "req"),
                                              Comp("q", Sc("octs", <<>>), "req") >>],
    \* DEFAULT components of string-like kinds
    [k |-> "seq", tags |-> <<>>, comps |-> << Comp("a", Sc("int", <<>>), "req"),
                                              CompD("b", Sc("bits", <<>>), [bits |-> <<1, 0, 1>>]),
                                              CompD("c", Sc("octs", <<Ctx(0)>>), [o |-> <<97>>]) >>],
    \* OPTIONAL and DEFAULT components in a row, followed by a mandatory one
    [k |-> "seq", tags |-> <<>>, comps |-> << Comp("id", Sc("int", <<>>), "req"), Comp("name", Sc("utf8", <<>>), "opt"),
                                              CompD("flag", Sc("bool", <<>>), [b |-> FALSE]),
                                              CompD("retries", Sc("int", <<Ctx(0)>>), I(1)), Comp("data", Sc("octs", <<>>), "req") >>],
    [k |-> "setof", tags |-> <<>>, of |-> Sc("int", <<>>)],
    [k |-> "setof", tags |-> <<>>, of |-> InnerOf],
    \* DEFAULT component of a constructed type with constructed members (cloned out of the schema on decode)
    [k |-> "seq", tags |-> <<>>, comps |-> << Comp("id", Sc("bool", <<>>), "req"),
          CompD("routes", [k |-> "seqof", tags |-> <<>>, of |-> Route],
                [es |-> << [cs |-> << [p |-> TRUE, v |-> I(1)], [p |-> TRUE, v |-> [b |-> TRUE]] >>] >>]) >>],
    \* tag stacks of depth 2 (the quick tier otherwise stops at depth 1): explicit over explicit, explicit over implicit,
    \* implicit over explicit, also around ANY
    Sc("any", <<CtxE(1), CtxE(2)>>), Sc("any", <<[m |-> "E", c |-> 1, n |-> B(128)], [m |-> "E", c |-> 1, n |-> B(128)]>>),
    Sc("int", <<CtxE(1), CtxE(2)>>), Sc("octs", <<Ctx(1), CtxE(2)>>), Sc("int", <<CtxE(1), Ctx(2)>>),
    Sc("bool", <<CtxE(31), CtxE(31)>>),      \* (no IMPLICIT tag on ANY: X.680 31.2.7 rules it out, X.690 has no encoding for it)
    \* repeated explicitly tagged strings: with a chunk size some members are segmented (constructed) and some are not
    [k |-> "seqof", tags |-> <<>>, of |-> Sc("octs", <<CtxE(5)>>)],
    [k |-> "seqof", tags |-> <<>>, of |-> Sc("utf8", <<CtxE(40)>>)],
    \* OPTIONAL members of type NULL (whose Python image is None), present and absent
    [k |-> "seq", tags |-> <<>>, comps |-> << Comp("a", Sc("int", <<>>), "req"), Comp("n", Sc("null", <<>>), "opt"),
                                              Comp("m", Sc("null", <<Ctx(0)>>), "opt"), Comp("o", Sc("octs", <<>>), "req") >>],
    [k |-> "set", tags |-> <<>>, comps |-> << Comp("a", Sc("int", <<>>), "req"), Comp("n", Sc("null", <<>>), "opt") >>],
    \* CHOICE between two multi-octet identifiers with the same leading octet
    [k |-> "choice", tags |-> <<>>, alts |-> << [name |-> "ping", t |-> Sc("int", <<Ctx(31)>>)], [name |-> "pong", t |-> Sc("int", <<Ctx(32)>>)],
                                               [name |-> "pang", t |-> Sc("int", <<CtxE(33)>>)] >>] }

Types ==
  (IF "scalar" \in UShapes THEN ScalarTypes ELSE {}) \cup
  (IF "any" \in UShapes THEN { Sc("any", s) : s \in OpenStacks } ELSE {}) \cup
  (IF "seq" \in UShapes THEN RecordTypes("seq") ELSE {}) \cup
  (IF "set" \in UShapes THEN { t \in RecordTypes("set") : DistinctOuter([i \in 1..3 |-> t.comps[i].t]) } ELSE {}) \cup
  (IF "seqof" \in UShapes THEN OfTypes("seqof") ELSE {}) \cup
  (IF "setof" \in UShapes THEN OfTypes("setof") ELSE {}) \cup
  (IF "choice" \in UShapes THEN ChoiceTypes ELSE {}) \cup
  (IF "deep" \in UShapes THEN Deep ELSE {})

(***************************************************************************)
(* Values of a type.  top = TRUE: every boundary value of a scalar; nested *)
(* positions use FewValues to keep the product finite and small.           *)
(***************************************************************************)
RECURSIVE Values(_, _)
SeqOfCombos(S) == { <<>> } \cup { <<x>> : x \in S } \cup { <<x, y>> : x \in S, y \in S } \cup
                  { <<x, y, x>> : x \in S, y \in S }

CompOptions(T, cp) ==   \* the possible [p, v] records of one component
  LET vs == { [p |-> TRUE, v |-> x] : x \in Values(cp.t, FALSE) }
  IN IF cp.mode = "req" THEN vs
     ELSE IF cp.mode = "opt" THEN vs \cup { [p |-> FALSE] }
     ELSE { [p |-> FALSE], [p |-> TRUE, v |-> cp.dflt] } \cup vs

RECURSIVE Product(_)
Product(sets) ==  \* set of sequences s with s[i] \in sets[i]
  IF Len(sets) = 0 THEN { <<>> }
  ELSE { <<x>> \o r : x \in Head(sets), r \in Product(Tail(sets)) }

Values(T, top) ==
  CASE T.k \in {"seq", "set"} -> {[cs |-> c] : c \in Product([i \in 1..Len(T.comps) |-> CompOptions(T, T.comps[i])])}
    [] T.k \in {"seqof", "setof"} -> {[es |-> c] : c \in SeqOfCombos(Values(T.of, FALSE))}
    [] T.k = "choice" -> UNION { { [alt |-> i, v |-> x] : x \in Values(T.alts[i].t, FALSE) } : i \in 1..Len(T.alts) }
    [] OTHER -> IF top THEN ScalarValues(T.k) ELSE FewValues(T.k)
=============================================================================
