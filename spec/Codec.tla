------------------------------- MODULE Codec --------------------------------
(***************************************************************************)
(* The codec session machine over the universe U:                          *)
(*                                                                         *)
(*   Pick (Init) -> Encode(mode) -> ( Truncate(k) | AppendTail(t) |        *)
(*                                    Rewrite(rho) | Retag ) -> Decode     *)
(*                                                                         *)
(* The invariants are the model-level statements of C01-C03, C06, C07,     *)
(* C09, C13, C15 on the reference encoder/reader (they validate the oracle *)
(* itself); the same operators judge what the real library did in *)
(* Trace_Codec.                                                            *)
(***************************************************************************)
EXTENDS Universe

CONSTANTS UModes,       \* names of encoder modes enumerated
          UTails,       \* set of tails appended after an encoding
          UCuts         \* TRUE: enumerate every cut point as a state

VARIABLES ph, ty, val, md, wire, inp, note
vars == <<ph, ty, val, md, wire, inp, note>>

ModeOf(m) ==
  CASE m = "der" -> DERMode
    [] m = "cer" -> CERMode
    [] m = "ber_def" -> LibBER(TRUE, 0)
    [] m = "ber_indef" -> LibBER(FALSE, 0)
    [] m = "ber_def_c1" -> LibBER(TRUE, 1)
    [] m = "ber_indef_c1" -> LibBER(FALSE, 1)
    [] m = "ber_def_c2" -> LibBER(TRUE, 2)
    [] m = "ber_indef_c2" -> LibBER(FALSE, 2)
    [] m = "ber_def_c3" -> LibBER(TRUE, 3)
    [] m = "ber_indef_c3" -> LibBER(FALSE, 3)
    [] m = "ber_def_c7" -> LibBER(TRUE, 7)
    [] m = "ber_indef_c7" -> LibBER(FALSE, 7)
    \* X.690 sender's options the library's own encoder never takes (C09)
    [] m = "v_long" -> [LibBER(TRUE, 0) EXCEPT !.lf = <<1>>]
    [] m = "v_pad" -> [LibBER(TRUE, 0) EXCEPT !.lf = <<2>>]
    [] m = "v_mixlen" -> [LibBER(TRUE, 0) EXCEPT !.lf = <<0, 1, 2>>]
    [] m = "v_defindef" -> [LibBER(TRUE, 0) EXCEPT !.def = <<TRUE, FALSE>>]
    [] m = "v_indefdef" -> [LibBER(TRUE, 0) EXCEPT !.def = <<FALSE, TRUE>>, !.lf = <<0, 1>>]
    [] m = "v_nest" -> [LibBER(TRUE, 2) EXCEPT !.nest = TRUE]
    [] m = "v_nestindef" -> [LibBER(FALSE, 1) EXCEPT !.nest = TRUE]
    [] m = "v_chunkx" -> [LibBER(TRUE, 2) EXCEPT !.bitchunk = "x690"]
    [] m = "v_true7f" -> [LibBER(TRUE, 0) EXCEPT !.tru = 127]
    [] m = "v_true80" -> [LibBER(FALSE, 0) EXCEPT !.tru = 128]
    [] m = "v_trueff" -> [LibBER(TRUE, 0) EXCEPT !.tru = 255]
    [] m = "v_perm" -> [LibBER(TRUE, 0) EXCEPT !.perm = 1]
    [] m = "v_sorted" -> [LibBER(FALSE, 0) EXCEPT !.sorted = TRUE]
    [] m = "v_emitdef" -> [LibBER(TRUE, 0) EXCEPT !.omit = FALSE]

RulesOf(m) == IF m = "der" THEN {"DER", "CER", "BER"} ELSE IF m = "cer" THEN {"CER", "BER"} ELSE {"BER"}

Init == /\ ph = "value" /\ ty \in Types /\ val \in Values(ty, TRUE)
        /\ md = "-" /\ wire = <<>> /\ inp = <<>> /\ note = <<>>

Encode(m) == /\ ph = "value"
             /\ wire' = Enc(ModeOf(m), 0, ty, val) /\ inp' = wire' /\ md' = m /\ ph' = "wire"
             /\ UNCHANGED <<ty, val, note>>

Truncate(k) == /\ ph = "wire" /\ UCuts /\ k < Len(wire)
               /\ inp' = Take(wire, k) /\ note' = <<k>> /\ ph' = "cut" /\ UNCHANGED <<ty, val, md, wire>>

AppendTail(t) == /\ ph = "wire"
                 /\ inp' = wire \o t /\ note' = t /\ ph' = "tail" /\ UNCHANGED <<ty, val, md, wire>>

Next == \/ \E m \in UModes : Encode(m)
        \/ \E k \in 0..64 : Truncate(k)
        \/ \E t \in UTails : AppendTail(t)

Spec == Init /\ [][Next]_vars

(***************************************************************************)
(* Model-level properties of the reference (oracle validation)             *)
(***************************************************************************)
TypeOK == ph \in {"value", "wire", "cut", "tail"}

(* C01/C02/C09: every form the reference writer produces is read back to the value *)
AllFormsDecode == ph = "wire" => \A r \in RulesOf(md) : ParsesTo(r, ty, wire, val, <<>>)

(* C02: the readers are monotone: DER ok => CER ok => BER ok, same value *)
ReadersMonotone ==
  ph \in {"wire", "cut", "tail"} =>
    LET d == Parse("DER", ty, inp) c == Parse("CER", ty, inp) b == Parse("BER", ty, inp)
    IN /\ (d.st = "ok" => c.st = "ok" /\ c.v = d.v /\ c.rest = d.rest)
       /\ (c.st = "ok" => b.st = "ok" /\ b.v = c.v /\ b.rest = c.rest)

(* C03: DER is canonical: re-encoding what was read reproduces the bytes; *)
(* non-DER forms of string/boolean/length are refused by the DER reader (C15) *)
DerFixpoint == (ph = "wire" /\ md = "der") => DER(ty, Parse("DER", ty, wire).v) = wire

(* C06: every proper prefix of a valid encoding is "short" under every reader *)
ProperPrefixIsShort == ph = "cut" => \A r \in RulesOf(md) : Parse(r, ty, inp).st = "short"

(* C07: exactly one encoding is consumed *)
TailPreserved == ph = "tail" => \A r \in RulesOf(md) : ParsesTo(r, ty, inp, val, note)

(* C07: an encoding is exactly one TLV (the generic reader consumes all of it) *)
OneTLV == ph = "wire" => LET t == ReadTLV(wire) IN t.st = "ok" /\ t.e = Len(wire) + 1

(* C13: the identifier octets, outermost to innermost, are the type's tags *)
HeadersAreTags ==
  (ph = "wire" /\ Len(TagsOf(ty)) > 0) =>
     LET ts == TagsOf(ty)
         hc == HeaderChain(ReadTLV(wire).node, Len(ts))
     IN /\ Len(hc) = Len(ts)
        /\ \A i \in 1..Len(ts) : hc[i].c = ts[i].c /\ hc[i].n = ts[i].n
        /\ \A i \in 1..(Len(ts) - 1) : hc[i].f = 1

(* C15: canonical output differs from the variants exactly where the DER reader is strict *)
StrictDer ==
  (ph = "wire" /\ md \notin {"der"}) =>
     LET d == Parse("DER", ty, wire) IN d.st = "ok" => d.v = Norm(ty, val)
=============================================================================
