------------------------------- MODULE BitStr --------------------------------
(***************************************************************************)
(* BIT STRING value objects as immutable bit sequences (type/univ.py:      *)
(* BitString) - behaviour of the library beyond the listed properties,     *)
(* bound to C14's clause "no public way of producing a scalar value ...    *)
(* (arithmetic, slicing, concatenation)".                                  *)
(* State: the current value `bits` (most significant / first bit first)    *)
(* and the history of operations that produced it.  Every operation of the *)
(* object protocol is one action; each reachable state is replayed into    *)
(* pyasn1 and the object's observables compared with Obs(bits).            *)
(***************************************************************************)
EXTENDS Naturals, Integers, Sequences, TLC

CONSTANTS MaxOps

Bit == {0, 1}
Operands == { <<>>, <<0>>, <<1>>, <<0, 1>> }
Starts == { <<>>, <<0>>, <<1>>, <<0, 0, 1>>, <<1, 0, 1, 1, 0, 0, 0, 0, 1>> }
SliceArgs == {0, 1, 2, -1, 99}

Rep(s, n) == [i \in 1..(n * Len(s)) |-> s[((i - 1) % Len(s)) + 1]]
Zeros(n) == [i \in 1..n |-> 0]
Clamp(n, x) == IF x < 0 THEN (IF n + x < 0 THEN 0 ELSE n + x) ELSE (IF x > n THEN n ELSE x)
SliceOf(s, i, j) == LET lo == Clamp(Len(s), i)  hi == Clamp(Len(s), j) IN IF hi <= lo THEN <<>> ELSE SubSeq(s, lo + 1, hi)

(* the result of one operation on value s *)
Apply(s, op) ==
  CASE op.o = "concat" -> s \o op.x                      \* s + x
    [] op.o = "rconcat" -> op.x \o s                     \* x + s
    [] op.o = "repeat" -> Rep(s, op.n)                   \* s * n  (n >= 1)
    [] op.o = "shl" -> s \o Zeros(op.n)                  \* s << n
    [] op.o = "shr" -> SubSeq(s, 1, IF Len(s) > op.n THEN Len(s) - op.n ELSE 0)   \* s >> n
    [] op.o = "slice" -> SliceOf(s, op.i, op.j)          \* s[i:j]

(* named deviation of the library, outside the listed properties (RepeatLosesLeadingZeros): s * n for n > 1 is computed *)
(* on the bare number and loses the leading zero bits of the result (an all-zero result becomes the empty string)       *)
RECURSIVE StripZeros(_)
StripZeros(s) == IF s # <<>> /\ Head(s) = 0 THEN StripZeros(Tail(s)) ELSE s
ApplyLib(s, op) == IF op.o = "repeat" /\ op.n > 1 THEN StripZeros(Rep(s, op.n)) ELSE Apply(s, op)

Ops == [o : {"concat", "rconcat"}, x : Operands] \cup [o : {"repeat"}, n : {1, 2, 3}] \cup [o : {"shl"}, n : {0, 1, 2}]
       \cup [o : {"shr"}, n : {0, 1, 3}] \cup [o : {"slice"}, i : SliceArgs, j : SliceArgs]

(* observables *)
PadLeft8(s) == Zeros((8 - (Len(s) % 8)) % 8) \o s
ByteAt(p, k) == LET b(i) == p[8 * (k - 1) + i] IN
                128 * b(1) + 64 * b(2) + 32 * b(3) + 16 * b(4) + 8 * b(5) + 4 * b(6) + 2 * b(7) + b(8)
AsOctets(s) == LET p == PadLeft8(s) IN [k \in 1..(Len(p) \div 8) |-> ByteAt(p, k)]     \* the number, left-padded (documented)
(* s < t: shorter first, then as numbers (= lexicographic at equal length) *)
RECURSIVE LexLess(_, _)
LexLess(s, t) == IF s = <<>> THEN FALSE ELSE IF Head(s) # Head(t) THEN Head(s) < Head(t) ELSE LexLess(Tail(s), Tail(t))
Less(s, t) == Len(s) < Len(t) \/ (Len(s) = Len(t) /\ LexLess(s, t))
Obs(s) == [bits |-> s, octets |-> AsOctets(s)]

VARIABLES start, hist, bits
vars == <<start, hist, bits>>
Init == start \in Starts /\ hist = <<>> /\ bits = start
Next == /\ Len(hist) < MaxOps
        /\ \E op \in Ops : hist' = Append(hist, op) /\ bits' = Apply(bits, op)
        /\ UNCHANGED start
Spec == Init /\ [][Next]_vars

(* laws (oracle validation) *)
TypeOK == bits \in Seq(Bit)
ConcatLength == \A x \in Operands : Len(Apply(bits, [o |-> "concat", x |-> x])) = Len(bits) + Len(x)
RepeatLength == \A n \in {1, 2, 3} : Len(Apply(bits, [o |-> "repeat", n |-> n])) = n * Len(bits)
ShiftInverse == \A n \in {0, 1, 2} : Apply(Apply(bits, [o |-> "shl", n |-> n]), [o |-> "shr", n |-> n]) = bits
OctetsCoverBits == Len(AsOctets(bits)) = (Len(bits) + 7) \div 8
LessIsStrictOrder == \A x \in Operands : ~(Less(bits, x) /\ Less(x, bits)) /\ (x # bits => Less(bits, x) \/ Less(x, bits))
=============================================================================
