----------------------------- MODULE Container ------------------------------
(***************************************************************************)
(* Object machines of the mutable ASN.1 containers against their Python    *)
(* prototypes (C19).                                                       *)
(*                                                                         *)
(*  SEQUENCE OF / SET OF  ~  list, plus a schema/value status:             *)
(*     st = [schema |-> BOOLEAN, el |-> Seq(Int)]                          *)
(*     an element PH stands for a component that was instantiated as a     *)
(*     valueless placeholder (documented effect of reading position        *)
(*     len(self) with instantiate=True)                                    *)
(*  CHOICE  ~  at most one selected alternative:                           *)
(*     st = [cur |-> 0 (none) | 1..NAlt, val |-> Int]                      *)
(*  SEQUENCE  ~  dict over the declared names a (required), b (OPTIONAL),  *)
(*     c (DEFAULT DfltC):  st = [schema |-> BOOLEAN, f |-> <<va,vb,vc>>]    *)
(*     with NONE for "never set"                                           *)
(*                                                                         *)
(* Apply*(st, op) gives [ok |-> TRUE, st |-> new state, ret |-> result] for *)
(* a well-formed operation and [ok |-> FALSE] for an ill-formed one (the   *)
(* object must then raise a lookup or library error and stay unchanged).   *)
(* Ops are records [o |-> name, i |-> index, v |-> value].                 *)
(***************************************************************************)
EXTENDS Naturals, Integers, Sequences, FiniteSets, TLC

PH == -999          \* placeholder (valueless component instance)
NONE == -998        \* component never assigned
NORET == -997
DfltC == 0          \* DEFAULT value of SEQUENCE component c

Bad == [ok |-> FALSE]
Good(st, ret) == [ok |-> TRUE, st |-> st, ret |-> ret, lenient |-> FALSE]
(* the prototype gives no answer (e.g. comparing with a valueless member): the call may succeed or raise *)
(* a lookup/library error, but the object must stay as it is                                            *)
Either(st) == [ok |-> TRUE, st |-> st, ret |-> NORET, lenient |-> TRUE]

Count(s, v) == Cardinality({i \in 1..Len(s) : s[i] = v})
FirstIdx(s, v) == CHOOSE i \in 1..Len(s) : s[i] = v /\ \A j \in 1..(i - 1) : s[j] # v

(* stable insertion sort of a sequence of integers *)
RECURSIVE SortInts(_)
SortInts(s) ==
  IF Len(s) <= 1 THEN s
  ELSE LET m == CHOOSE i \in 1..Len(s) : \A j \in 1..Len(s) : s[i] <= s[j] /\ (s[j] = s[i] => i <= j)
       IN <<s[m]>> \o SortInts(SubSeq(s, 1, m - 1) \o SubSeq(s, m + 1, Len(s)))
Reversed(s) == [i \in 1..Len(s) |-> s[Len(s) + 1 - i]]
(* stable sort by descending key (mode "value": the member itself, "parity": member mod 2): repeatedly take the FIRST *)
(* member with the largest key                                                                                      *)
SortKey(x, mode) == IF mode = "parity" THEN x % 2 ELSE x
RECURSIVE StableSortDesc(_, _)
StableSortDesc(s, mode) ==
  IF Len(s) <= 1 THEN s
  ELSE LET m == CHOOSE i \in 1..Len(s) : \A j \in 1..Len(s) :
                   SortKey(s[i], mode) >= SortKey(s[j], mode) /\ (SortKey(s[j], mode) = SortKey(s[i], mode) => i <= j)
       IN <<s[m]>> \o StableSortDesc(SubSeq(s, 1, m - 1) \o SubSeq(s, m + 1, Len(s)), mode)

(***************************************************************************)
(* SEQUENCE OF                                                             *)
(***************************************************************************)
SOInit == [schema |-> TRUE, el |-> <<>>]
SOIsValue(st) == ~st.schema /\ \A i \in 1..Len(st.el) : st.el[i] # PH
NormIdx(st, i) == IF i < 0 THEN Len(st.el) + i ELSE i          \* Python index -> 0-based

(* Python slice bounds [i:v] on a list of n elements (no step): 0-based lo, hi with lo <= hi *)
ClampIdx(n, x) == IF x < 0 THEN (IF n + x < 0 THEN 0 ELSE n + x) ELSE (IF x > n THEN n ELSE x)
SliceLo(n, i) == ClampIdx(n, i)
SliceHi(n, i, v) == IF ClampIdx(n, v) < ClampIdx(n, i) THEN ClampIdx(n, i) ELSE ClampIdx(n, v)

ApplySO(st, op) ==
  LET n == Len(st.el) IN
  CASE op.o \in {"set", "setitem"} ->       \* documented range: an existing position or len(self)
         LET i == NormIdx(st, op.i) IN
         IF i < 0 \/ i > n THEN Bad
         ELSE IF i = n THEN Good([schema |-> FALSE, el |-> Append(st.el, op.v)], NORET)
         ELSE Good([schema |-> FALSE, el |-> [st.el EXCEPT ![i + 1] = op.v]], NORET)
    [] op.o \in {"setbad", "setbadobj", "appendbad", "setslicebad"} -> Bad   \* a value the component type cannot take; a slice
                                                                             \* assignment with one such member is refused as a whole
    [] op.o = "append" -> Good([schema |-> FALSE, el |-> Append(st.el, op.v)], NORET)
    [] op.o = "extend" -> Good([schema |-> FALSE, el |-> st.el \o <<op.v, op.v + 1>>], NORET)
    [] op.o = "clear" -> Good([schema |-> FALSE, el |-> <<>>], NORET)
    [] op.o = "reset" -> Good(SOInit, NORET)
    [] op.o = "sort" -> IF ~SOIsValue(st) THEN Either(st) ELSE Good([st EXCEPT !.el = SortInts(st.el)], NORET)
    \* sort(key=parity, reverse=True) and sort(reverse=True): Python's sort is stable also when reversed - members with equal
    \* keys keep their relative order
    [] op.o = "sortrev" -> IF ~SOIsValue(st) THEN Either(st) ELSE Good([st EXCEPT !.el = StableSortDesc(st.el, "value")], NORET)
    [] op.o = "sortparity" -> IF ~SOIsValue(st) THEN Either(st) ELSE Good([st EXCEPT !.el = StableSortDesc(st.el, "parity")], NORET)
    [] op.o = "reverse" -> IF st.schema THEN Either(st) ELSE Good([st EXCEPT !.el = Reversed(st.el)], NORET)
    \* readers
    [] op.o = "len" -> Good(st, n)
    \* slices, as for a Python list: s[i:v] reads, s[i:v] = <<..>> replaces that stretch (the list may shrink or grow)
    [] op.o = "getslice" -> Good(st, SliceHi(n, op.i, op.v) - SliceLo(n, op.i))
    [] op.o \in {"setslice0", "setslice1", "setslice2"} ->
         LET vals == IF op.o = "setslice0" THEN <<>> ELSE IF op.o = "setslice1" THEN <<7>> ELSE <<7, 8>>
             lo == SliceLo(n, op.i)  hi == SliceHi(n, op.i, op.v)
         IN Good([schema |-> FALSE, el |-> SubSeq(st.el, 1, lo) \o vals \o SubSeq(st.el, hi + 1, n)], NORET)
    [] op.o = "getitem" ->                  \* s[i]: existing member is a pure read; s[len] instantiates a placeholder
         LET i == NormIdx(st, op.i) IN
         IF i < 0 \/ i > n THEN Bad
         ELSE IF i = n THEN Good([schema |-> FALSE, el |-> Append(st.el, PH)], PH)
         ELSE Good(st, st.el[i + 1])
    [] op.o = "peek" ->                     \* getComponentByPosition(i, default=None, instantiate=False)
         LET i == NormIdx(st, op.i) IN
         IF i < 0 THEN Bad ELSE IF i >= n \/ st.el[i + 1] = PH THEN Good(st, NONE) ELSE Good(st, st.el[i + 1])
    [] op.o = "contains" -> IF ~SOIsValue(st) THEN Either(st) ELSE Good(st, IF \E i \in 1..n : st.el[i] = op.v THEN 1 ELSE 0)
    [] op.o = "count" -> IF ~SOIsValue(st) THEN Either(st) ELSE Good(st, Count(st.el, op.v))
    [] op.o = "index" -> IF ~SOIsValue(st) THEN Either(st) ELSE IF Count(st.el, op.v) = 0 THEN Bad ELSE Good(st, FirstIdx(st.el, op.v) - 1)
    [] op.o = "eq" -> IF ~SOIsValue(st) THEN Either(st) ELSE Good(st, NORET)
    [] op.o \in {"iter", "prettyPrint", "encode", "clone", "cloneschema"} -> Good(st, NORET)

(***************************************************************************)
(* CHOICE with NAlt alternatives (named by position 0..NAlt-1)             *)
(***************************************************************************)
NAlt == 3
CHInit == [cur |-> 0, val |-> NONE]
ChoiceAtMostOne(st) == st.cur \in 0..NAlt

ApplyCH(st, op) ==
  CASE op.o \in {"set", "setitem", "setbyname", "setbytype"} ->
         IF op.i < 0 \/ op.i >= NAlt THEN Bad ELSE Good([cur |-> op.i + 1, val |-> op.v], NORET)
    [] op.o \in {"setbad", "setbadobj"} -> Bad
    [] op.o = "clear" -> Good(CHInit, NORET)
    [] op.o = "reset" -> Good(CHInit, NORET)
    \* reading an alternative never selects it
    [] op.o \in {"getitem", "peek", "getbyname"} ->
         IF op.i < 0 \/ op.i >= NAlt THEN Bad
         ELSE Good(st, IF st.cur = op.i + 1 THEN st.val ELSE NONE)
    [] op.o = "getName" -> IF st.cur = 0 THEN Bad ELSE Good(st, st.cur - 1)
    [] op.o = "getComponent" -> IF st.cur = 0 THEN Bad ELSE Good(st, st.val)
    [] op.o = "len" -> Good(st, IF st.cur = 0 THEN 0 ELSE 1)
    [] op.o = "contains" -> IF op.i < 0 \/ op.i >= NAlt THEN Good(st, 0) ELSE Good(st, IF st.cur = op.i + 1 THEN 1 ELSE 0)
    [] op.o = "eq" -> IF st.val = PH THEN Either(st) ELSE Good(st, NORET)     \* comparing a valueless member: no answer
    [] op.o \in {"iter", "prettyPrint", "encode", "clone", "cloneschema"} -> Good(st, NORET)

(* Named deviation F18 (open finding, pinned by the read-to-select idiom choice['alt']['f'] = x): reading an        *)
(* alternative that is not the selected one SELECTS it, as a valueless placeholder, and drops the previous value.   *)
(* ApplyCHLib reproduces that exactly, so that the acceptor can attribute it and keep judging the history.          *)
ApplyCHLib(st, op) ==
  IF op.o \in {"getitem", "getbyname"} /\ op.i >= 0 /\ op.i < NAlt /\ st.cur # op.i + 1
  THEN Good([cur |-> op.i + 1, val |-> PH], PH)
  ELSE ApplyCH(st, op)

(***************************************************************************)
(* SEQUENCE { a INTEGER, b INTEGER OPTIONAL, c INTEGER DEFAULT DfltC }     *)
(***************************************************************************)
NComp == 3
SQInit == [schema |-> TRUE, f |-> <<NONE, NONE, NONE>>]
SQIsValue(st) == ~st.schema /\ st.f[1] \notin {NONE, PH}
(* abstract content: a placeholder is "no value"; an unset DEFAULT component is its default *)
SQObs(st) == << IF st.f[1] = PH THEN NONE ELSE st.f[1], IF st.f[2] = PH THEN NONE ELSE st.f[2],
                IF st.f[3] \in {NONE, PH} THEN DfltC ELSE st.f[3] >>

ApplySQ(st, op) ==
  CASE op.o \in {"set", "setitem", "setbyname"} ->
         IF op.i < 0 \/ op.i >= NComp THEN Bad
         ELSE Good([schema |-> FALSE, f |-> [st.f EXCEPT ![op.i + 1] = op.v]], NORET)
    [] op.o \in {"setbad", "setbadobj"} -> Bad
    [] op.o = "clear" -> Good([schema |-> FALSE, f |-> <<NONE, NONE, NONE>>], NORET)
    [] op.o = "reset" -> Good(SQInit, NORET)
    [] op.o \in {"getitem", "getbyname"} ->   \* s[i] / s[name]: an unset component is instantiated (documented):
         IF op.i < 0 \/ op.i >= NComp THEN Bad   \* a placeholder, or the DEFAULT value for c
         ELSE IF st.f[op.i + 1] # NONE THEN Good(st, st.f[op.i + 1])
         ELSE IF op.i = 2 THEN Good([schema |-> FALSE, f |-> [st.f EXCEPT ![3] = DfltC]], DfltC)
         ELSE Good([schema |-> FALSE, f |-> [st.f EXCEPT ![op.i + 1] = PH]], PH)
    [] op.o \in {"peek", "peekbyname"} ->     \* getComponentBy*(.., default=None, instantiate=False)
         IF op.i < 0 \/ op.i >= NComp THEN Bad
         ELSE IF op.i = 2 /\ st.f[3] \in {NONE, PH} THEN Good(st, NORET)       \* unset DEFAULT: "nothing" or the default
         ELSE Good(st, IF st.f[op.i + 1] = PH THEN NONE ELSE st.f[op.i + 1])
    [] op.o = "len" -> Good(st, NORET)           \* counts allocated slots: not specified
    [] op.o = "contains" -> Good(st, IF op.i >= 0 /\ op.i < NComp THEN 1 ELSE 0)     \* name in seq
    [] op.o \in {"iter", "keys", "prettyPrint", "eq", "encode", "clone", "cloneschema"} -> Good(st, NORET)

(***************************************************************************)
(* SET { a INTEGER, b [0] INTEGER OPTIONAL, c [1] INTEGER DEFAULT DfltC }:  *)
(* the same dict machine, members also addressed by their tags             *)
(***************************************************************************)
ApplyST(st, op) ==
  CASE op.o = "setbytype" -> ApplySQ(st, [op EXCEPT !.o = "set"])
    [] op.o = "getbytype" -> ApplySQ(st, [op EXCEPT !.o = "getitem"])
    [] op.o = "peekbytype" -> ApplySQ(st, [op EXCEPT !.o = "peek"])
    [] OTHER -> ApplySQ(st, op)
=============================================================================
