------------------------------ MODULE Session -------------------------------
(***************************************************************************)
(* Codec calls over shared resources (C12): k suspended streaming decoders *)
(* (each an instance of the ideal layer of StreamIdeal over its own        *)
(* source), one-shot calls, and the shared things they all touch: the      *)
(* schema object(s), the codec singletons with their memo caches, the      *)
(* debug switch.  Every action declares what it may write.                 *)
(*   - a poll of decoder d reads d's source and writes d's own state and   *)
(*     the memo (adding entries that are a function of their key);         *)
(*   - nobody writes the schema;                                           *)
(*   - the debug switch changes no observation.                            *)
(* Non-interference: the observation sequence of each decoder is the one   *)
(* of its isolated run - in the model obs'[d] is IdealObs of d's own       *)
(* variables only, whatever the interleaving; TLC checks the invariants    *)
(* for every interleaving, the acceptor Trace_Session checks the same on   *)
(* recorded interleavings of the real decoders.                            *)
(***************************************************************************)
EXTENDS Naturals, Sequences, FiniteSets, TLC

CONSTANTS Ends1, Ends2      \* item layouts of the two sources
SI == INSTANCE StreamIdeal WITH Ends <- <<>>, Extra <- 0, CanSay <- TRUE, avail <- 0, closed <- FALSE, item <- 0,
                                obs <- "none", polls <- 0

D == {1, 2}
EndsOf(d) == IF d = 1 THEN Ends1 ELSE Ends2
TotalOf(d) == LET e == EndsOf(d) IN IF Len(e) = 0 THEN 0 ELSE e[Len(e)]
Tags(d) == {d * 10 + i : i \in 1..Len(EndsOf(d))}       \* identifier octets decoder d comes across

VARIABLES avail, closed, item, obs,   \* per decoder
          schema,                      \* version of the shared schema object (must stay 0)
          memo,                        \* the singletons' tag cache: set of keys (value = f(key), so a set suffices)
          debug, calls
vars == <<avail, closed, item, obs, schema, memo, debug, calls>>

Init == /\ avail = [d \in D |-> 0] /\ closed = [d \in D |-> FALSE] /\ item = [d \in D |-> 1]
        /\ obs = [d \in D |-> "none"] /\ schema = 0 /\ memo = {} /\ debug = FALSE /\ calls = 0

Arrive(d) == /\ ~closed[d] /\ avail[d] < TotalOf(d)
             /\ \E k \in 1..(TotalOf(d) - avail[d]) : avail' = [avail EXCEPT ![d] = @ + k]
             /\ UNCHANGED <<closed, item, obs, schema, memo, debug, calls>>
Close(d) == ~closed[d] /\ closed' = [closed EXCEPT ![d] = TRUE] /\ UNCHANGED <<avail, item, obs, schema, memo, debug, calls>>
Poll(d) == /\ ~SI!Final(obs[d])
           /\ LET o == SI!IdealObs(EndsOf(d), TRUE, avail[d], closed[d], item[d]) IN
              /\ obs' = [obs EXCEPT ![d] = o]
              /\ item' = [item EXCEPT ![d] = IF o = "obj" THEN @ + 1 ELSE @]
              /\ memo' = IF o = "obj" THEN memo \cup {d * 10 + item[d]} ELSE memo     \* footprint: memo only grows
           /\ UNCHANGED <<avail, closed, schema, debug, calls>>
OneShot == calls < 2 /\ calls' = calls + 1 /\ memo' = memo \cup {99} /\ UNCHANGED <<avail, closed, item, obs, schema, debug>>
ToggleDebug == debug' = ~debug /\ calls < 2 /\ calls' = calls + 1 /\ UNCHANGED <<avail, closed, item, obs, schema, memo>>

Next == (\E d \in D : Arrive(d) \/ Close(d) \/ Poll(d)) \/ OneShot \/ ToggleDebug
Spec == Init /\ [][Next]_vars

SchemaUnchanged == schema = 0
MemoOnlyGrows == [][memo \subseteq memo']_vars
(* a step of one decoder (or a one-shot call, or the debug switch) leaves the other decoder's state alone *)
NonInterference == [][\A d \in D : (obs'[d] # obs[d] \/ item'[d] # item[d]) =>
                         (\A e \in D \ {d} : obs'[e] = obs[e] /\ item'[e] = item[e] /\ avail'[e] = avail[e])]_vars
(* every decoder's observation is the one its own source explains (= its isolated run) *)
Isolated == \A d \in D : obs[d] \in {"none", "obj", "underrun", "stop", "eos"} /\ item[d] - 1 <= Len(EndsOf(d))
=============================================================================
