---------------------------- MODULE StreamIdeal ------------------------------
(***************************************************************************)
(* The resumable (streaming) decoder seen from its user.                   *)
(*                                                                         *)
(* A byte source holds S = e1 ... en (item i ends at offset Ends[i]); its  *)
(* bytes become available over time (Arrive), it may be closed (Close).    *)
(* The user polls the decoder iterator (Poll); every poll ends in exactly  *)
(* one observation:                                                        *)
(*    "obj"       the next object                                          *)
(*    "underrun"  not enough data yet, poll again later                    *)
(*    "stop"      iteration finished (clean end between items)             *)
(*    "eos"       end-of-stream error (source closed inside an item)       *)
(*                                                                         *)
(* IDEAL LAYER: the observation of a poll is a function of what  *)
(* is available - this is property C05 (schedule independence), C06        *)
(* (streaming clause) and C07 (position after each object).                *)
(* MECHANISM LAYER (module StreamMech): the read protocol every payload decoder of     *)
(* pyasn1 is written against - read n; on a short or empty read rewind and *)
(* yield an underrun to be retried; look-ahead reads followed by a seek    *)
(* back; the end-of-stream probe between items.  The reader may pick ANY   *)
(* read plan inside the current item.  TLC checks that the mechanism       *)
(* refines the ideal layer (PROPERTY Refines) for every plan and schedule. *)
(* Named deviations (Devs) are the confirmed defects of the real code:     *)
(*   "F7"  a short read from a closed source is rewound and reported as    *)
(*         underrun (for ever) instead of end-of-stream                    *)
(***************************************************************************)
EXTENDS Naturals, Sequences, FiniteSets, TLC

EndOf(ends, i) == IF i = 0 THEN 0 ELSE ends[i]

(* what a poll must observe; cansay = the source can say "no data yet" (returns None) *)
IdealObs(ends, cansay, avail, closed, item) ==
  LET consumed == EndOf(ends, item - 1) IN
  IF item <= Len(ends) /\ avail >= ends[item] THEN "obj"
  ELSE IF avail = consumed THEN (IF closed \/ ~cansay THEN "stop" ELSE "underrun")
  ELSE IF closed THEN "eos" ELSE "underrun"

Final(o) == o \in {"stop", "eos"}

(***************************************************************************)
(* Bounded instance of the ideal layer                                     *)
(***************************************************************************)
CONSTANTS Ends,          \* item end offsets of the complete stream, increasing
          Extra,         \* octets after the last complete item (a truncated item), 0 = none
          CanSay         \* the source can answer "no data yet"

Total == EndOf(Ends, Len(Ends)) + Extra
N == Len(Ends)

VARIABLES avail, closed, item, obs, polls
ivars == <<avail, closed, item, obs, polls>>

IdealInit == /\ avail \in (IF CanSay THEN 0..Total ELSE {Total}) /\ closed = ~CanSay /\ item = 1 /\ obs = "none" /\ polls = 0
Arrive(k) == ~closed /\ avail + k <= Total /\ avail' = avail + k /\ UNCHANGED <<closed, item, obs, polls>>
Close == ~closed /\ closed' = TRUE /\ UNCHANGED <<avail, item, obs, polls>>
IdealPoll == /\ ~Final(obs)
             /\ obs' = IdealObs(Ends, CanSay, avail, closed, item)
             /\ item' = IF obs' = "obj" THEN item + 1 ELSE item
             /\ polls' = 1 - polls
             /\ UNCHANGED <<avail, closed>>
IdealNext == (\E k \in 1..Total : Arrive(k)) \/ Close \/ IdealPoll
IdealSpec == IdealInit /\ [][IdealNext]_ivars
IdealFair == IdealSpec /\ WF_ivars(IdealPoll) /\ WF_ivars(Close) /\ WF_ivars(\E k \in 1..Total : Arrive(k))

(* user-level properties of the ideal layer *)
NeverAhead == item - 1 <= Cardinality({i \in 1..N : Ends[i] <= avail})          \* no object before its last octet
UnderrunOnlyWhenMissing == obs = "underrun" => (item > N \/ avail < Ends[item] \/ TRUE)
UnderrunMeansMissing == [][(obs' = "underrun" /\ polls' # polls) => (~closed /\ (item > N \/ avail < Ends[item]))]_ivars
StopOnlyAtBoundary == [][(obs' = "stop" /\ polls' # polls) => avail = EndOf(Ends, item - 1)]_ivars
EosOnlyInsideItem == [][(obs' = "eos" /\ polls' # polls) => (closed /\ avail > EndOf(Ends, item - 1))]_ivars
ObjInOrder == [][item' \in {item, item + 1}]_ivars
(* liveness: polling always comes to an end once the source is closed; and if everything had arrived *)
(* before, every object was delivered and iteration stopped cleanly                                  *)
Terminates == <>Final(obs)
CompleteMeansAll == (Final(obs) /\ avail = Total /\ Extra = 0) => (item = N + 1 /\ obs = "stop")
TruncatedMeansEos == (Final(obs) /\ avail > EndOf(Ends, item - 1)) => obs = "eos"
PollBound == polls <= 40
=============================================================================
