------------------------------ MODULE CompCons ------------------------------
(***************************************************************************)
(* Constraints of constructed types (C14: "component presence/absence",    *)
(* "encoders refuse constructed values that violate theirs"; C10: what a   *)
(* decoder returns satisfies them).                                        *)
(*                                                                         *)
(*   SEQUENCE / SET { a, b, c  all OPTIONAL }  WITH COMPONENTS ...         *)
(*     atom  [op |-> "with", m |-> <<ma, mb, mc>>]  m_i in                 *)
(*           "P" (PRESENT), "A" (ABSENT), "N" (not mentioned)              *)
(*     value = <<pa, pb, pc>>, the presence of each member                 *)
(*   SEQUENCE OF / SET OF  SIZE (lo..hi)                                   *)
(*     atom  [op |-> "size", lo, hi] ; value = number of members           *)
(*   nodes [op |-> "and" | "or", a, b]   [op |-> "not", a]                 *)
(*                                                                         *)
(* The machine is a generator: every initial state is one case             *)
(* (domain, expression c, further constraint c2 of a derived type, value x)*)
(* with the verdicts of the denotation; the harness replays every state    *)
(* into pyasn1 (constraint call, isInconsistent, five encoders, three      *)
(* decoders, derived type).                                                *)
(***************************************************************************)
EXTENDS Naturals, Sequences, FiniteSets

CONSTANTS Depth,        \* nesting of and / or / not above the atoms
          MaxFields     \* most members one WITH COMPONENTS atom mentions

Modes == {"P", "A", "N"}
Mentioned(m) == Cardinality({i \in 1..3 : m[i] # "N"})
Atoms == { [op |-> "with", m |-> m] : m \in { f \in [1..3 -> Modes] : Mentioned(f) >= 1 /\ Mentioned(f) <= MaxFields } }
Atoms2 == { [op |-> "with", m |-> <<"N", "N", "A">>], [op |-> "with", m |-> <<"P", "N", "N">>] }
SizeAtoms == { [op |-> "size", lo |-> 0, hi |-> 1], [op |-> "size", lo |-> 1, hi |-> 2], [op |-> "size", lo |-> 2, hi |-> 3] }
SizeAtoms2 == { [op |-> "size", lo |-> 1, hi |-> 3] }

RECURSIVE Holds(_, _)
Holds(c, x) ==
  CASE c.op = "with" -> \A i \in 1..3 : (c.m[i] = "P" => x[i]) /\ (c.m[i] = "A" => ~x[i])
    [] c.op = "size" -> c.lo <= x /\ x <= c.hi
    [] c.op = "and" -> Holds(c.a, x) /\ Holds(c.b, x)
    [] c.op = "or" -> Holds(c.a, x) \/ Holds(c.b, x)
    [] c.op = "not" -> ~Holds(c.a, x)

RECURSIVE Trees(_, _)
Trees(L, d) ==
  IF d = 0 THEN L
  ELSE LET S == Trees(L, d - 1)
       IN S \cup { [op |-> o, a |-> p, b |-> q] : o \in {"and", "or"}, p \in S, q \in L }
            \cup { [op |-> o, a |-> p, b |-> q] : o \in {"and", "or"}, p \in L, q \in S }
            \cup { [op |-> "not", a |-> p] : p \in S }

VARIABLES dom, c, c2, x, ok, ok2
vars == <<dom, c, c2, x, ok, ok2>>

Init ==
  /\ \/ /\ dom \in {"seq", "set"}
        /\ c \in Trees(Atoms, Depth) /\ c2 \in Atoms2 /\ x \in [1..3 -> BOOLEAN]
     \/ /\ dom \in {"seqof", "setof"}
        /\ c \in Trees(SizeAtoms, Depth) /\ c2 \in SizeAtoms2 /\ x \in 0..4
  /\ ok = Holds(c, x)
  /\ ok2 = (Holds(c, x) /\ Holds(c2, x))          \* the derived type: parent's constraints and the added one

Next == UNCHANGED vars
Spec == Init /\ [][Next]_vars

(* ---- properties of the denotation itself ---- *)
ExclusionIsComplement == Holds([op |-> "not", a |-> c], x) = ~ok
DeMorgan == Holds([op |-> "not", a |-> [op |-> "or", a |-> c, b |-> c2]], x)
              = (Holds([op |-> "not", a |-> c], x) /\ Holds([op |-> "not", a |-> c2], x))
DerivedNarrows == ok2 => ok
(* PRESENT and ABSENT of one member exclude each other; an atom is the meet of its one-member atoms *)
One(i, md) == [op |-> "with", m |-> [k \in 1..3 |-> IF k = i THEN md ELSE "N"]]
PresentAbsentExclusive == dom \in {"seq", "set"} => \A i \in 1..3 : ~(Holds(One(i, "P"), x) /\ Holds(One(i, "A"), x))
                                                                /\ (Holds(One(i, "P"), x) \/ Holds(One(i, "A"), x))
AtomIsMeet == (dom \in {"seq", "set"} /\ c.op = "with") =>
                 (ok = \A i \in 1..3 : c.m[i] = "N" \/ Holds(One(i, c.m[i]), x))
=============================================================================
