----------------------------- MODULE WellTyped ------------------------------
(***************************************************************************)
(* Independent evaluator of "v is a complete value of type T" (C10):       *)
(* every mandatory component present, every component of its declared      *)
(* type (the projection is taken along T, so only presence and constraints *)
(* remain to be judged here), all subtype constraints hold - value ranges  *)
(* and single values of INTEGERs, SIZE of strings and of SEQUENCE OF /      *)
(* SET OF.  A type term may carry                                          *)
(*    cons  |-> constraint tree on a scalar  (see Constraint.tla)          *)
(*    sizec |-> [lo, hi]  SIZE constraint of a SEQUENCE OF / SET OF         *)
(***************************************************************************)
EXTENDS X690

InSeqW(s, x) == \E i \in 1..Len(s) : s[i] = x
RECURSIVE HoldsW(_, _)
HoldsW(c, x) ==
  CASE c.op = "single" -> InSeqW(c.vals, x)
    [] c.op = "range" -> c.lo <= x /\ x <= c.hi
    [] c.op = "size" -> c.lo <= Len(x) /\ Len(x) <= c.hi
    [] c.op = "and" -> HoldsW(c.a, x) /\ HoldsW(c.b, x)
    [] c.op = "or" -> HoldsW(c.a, x) \/ HoldsW(c.b, x)
    [] c.op = "not" -> ~HoldsW(c.a, x)

HasField(r, f) == f \in DOMAIN r

ScalarOk(T, v) ==
  IF ~HasField(T, "cons") THEN TRUE
  ELSE IF T.k \in IntKinds THEN (BigFitsNat(v.mag) /\ Len(v.mag) <= 3 /\ HoldsW(T.cons, IntToSmall(v))) \/ FALSE
  ELSE IF T.k \in OctetStringKinds THEN HoldsW(T.cons, v.o)
  ELSE IF T.k = "bits" THEN HoldsW(T.cons, v.bits)
  ELSE TRUE

RECURSIVE WT(_, _)
WT(T, v) ==
  CASE T.k \in {"seq", "set"} ->
         \A i \in 1..Len(T.comps) :
            IF v.cs[i].p THEN WT(T.comps[i].t, v.cs[i].v) ELSE T.comps[i].mode # "req"
    [] T.k \in {"seqof", "setof"} ->
         /\ \A i \in 1..Len(v.es) : WT(T.of, v.es[i])
         /\ (HasField(T, "sizec") => (T.sizec.lo <= Len(v.es) /\ Len(v.es) <= T.sizec.hi))
    [] T.k = "choice" -> v.alt \in 1..Len(T.alts) /\ WT(T.alts[v.alt].t, v.v)
    [] OTHER -> ScalarOk(T, v)
=============================================================================
