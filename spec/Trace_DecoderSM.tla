-------------------------- MODULE Trace_DecoderSM ---------------------------
(***************************************************************************)
(* Acceptor: the state transitions the real single-item decoder records    *)
(* through the PYASN1_VERIF_TRACE hook (one tuple per `if state is ...`    *)
(* block entered, per call, per end-of-contents hit, per return) against   *)
(* the dispatch machine of DecoderSM.tla.                                  *)
(* One trace = one decode call / one streaming session: [id, ev];          *)
(* ev = flat 10-tuples <<kind, cid, a, b, c, d, e, f, g, h>>; g is the     *)
(* position of the (seekable) input at that point, h the length field:     *)
(*  1 enter   a entry state (library number), b allowEoo, c guide kind     *)
(*            (0 none 1 plain 2 open 3 map), d tags handed in, e = 1 iff   *)
(*            the caller collects raw substrate (substrateFun)             *)
(*  2 eoo     the frame found the end-of-contents octets and returns       *)
(*  3 state   a = state entered; for Get (2): b class, c constructed,      *)
(*            d number of the tag read last, e indefinite, f tags so far;  *)
(*            for Value (6): b decoder kind (1 concrete 2 explicit 3 raw)  *)
(*  4 spec    outcome of the BySpec block: a candidate found, b it has a   *)
(*            codec, c the tags read equal the guide's (2 = not a plain    *)
(*            guide)                                                       *)
(*  5 exit    a = 1 iff a value object is returned                         *)
(*  9 outcome of the whole call, logged by the driver: a status (1 values, *)
(*            2 library error, other = foreign), b frames, c input length  *)
(* Every frame must follow DecoderSM!NextState with the logged facts; the  *)
(* acceptor names the first clause a trace breaks.                         *)
(* Positions (the TLV tree is well nested, at every level - C07's "consumes *)
(* exactly one encoding" for every member, not only the outermost value):   *)
(*   a member call starts where the previous member ended (or where the     *)
(*   contents start), a definite frame returns at contents start + length,  *)
(*   a frame that had members returns where its last member ended.          *)
(***************************************************************************)
EXTENDS Integers, Sequences, TLC, Json, IOUtils

D == INSTANCE DecoderSM WITH stack <- <<>>, out <- "run", MaxDepth <- 3, MaxKids <- 2
NewFrame(entry, eoo, spec, ntags, tag, indef) == D!NewFrame(entry, eoo, spec, ntags, tag, indef)
NextState(f, env) == D!NextState(f, env)
DecoderOf(f, env) == D!DecoderOf(f, env)
NoTag == D!NoTag

Traces == ndJsonDeserialize(IOEnv.TRACE_FILE)
VARIABLES tid, l, fr, dead
tvars == <<tid, l, fr, dead>>

W == 10
F(t, j, k) == Traces[t].ev[W * (j - 1) + k]
NEv(t) == Len(Traces[t].ev) \div W
Reject(t, j, clause) == PrintT(<<"REJECT", Traces[t].id, j, clause>>)

(* library state numbers *)
StName(n) == CASE n = 0 -> "Tag" [] n = 1 -> "Length" [] n = 2 -> "Get" [] n = 3 -> "BySpec" [] n = 4 -> "ByTag"
               [] n = 5 -> "Explicit" [] n = 6 -> "Value" [] n = 7 -> "Raw" [] n = 8 -> "Error" [] OTHER -> "Stop"
SpecName(n) == CASE n = 0 -> "none" [] n = 1 -> "plain" [] n = 2 -> "open" [] OTHER -> "map"
DecName(n) == CASE n = 1 -> "concrete" [] n = 2 -> "explicit" [] n = 3 -> "raw" [] OTHER -> "none"

FrameBound(len) == 4 * len + 8

TraceInit == tid \in 1..Len(Traces) /\ l = 0 /\ fr = <<>> /\ dead = FALSE

TFrame(entry, eoo, spec, ntags, tag, indef, cid, collect, pos, cstart, flen) ==
  NewFrame(entry, eoo, spec, ntags, tag, indef) @@
  [cid |-> cid, entry |-> entry, wait |-> FALSE, seen |-> FALSE, collect |-> collect,
   p0 |-> pos,            \* position at the call
   cstart |-> cstart,     \* where the contents start (known once the header is read; -1 before)
   flen |-> flen,         \* definite length of the contents, -1 = indefinite / not yet known
   nxt |-> cstart]        \* where the next member has to start
TopF == fr[Len(fr)]
(* named deviation of the code, outside the listed properties: the decoder of an explicitly tagged CHOICE matches its   *)
(* wrapper tag by class and number only and unwraps a wrapper flagged primitive (87 04 02 02 ff 7f under [7] CHOICE),    *)
(* whether the CHOICE is the guide itself or was picked from the tag map of a SEQUENCE / SET position                  *)
PrimitiveChoiceWrapper(f, childspec) == f.spec # "none" /\ f.dec = "concrete" /\ f.tag.c # 0 /\ childspec = 3
ReplaceF(f) == [fr EXCEPT ![Len(fr)] = f]
PopF == SubSeq(fr, 1, Len(fr) - 1)
(* the innermost frame returns at position p: its caller's next member starts there *)
Returned(p) == IF Len(fr) = 1 THEN <<>> ELSE [PopF EXCEPT ![Len(fr) - 1] = [@ EXCEPT !.nxt = p, !.kids = @ + 1]]
NoEnv == [chosen |-> TRUE, concrete |-> TRUE]

Step ==
  /\ l < NEv(tid) /\ l' = l + 1 /\ UNCHANGED tid
  /\ IF dead THEN UNCHANGED <<fr, dead>>
     ELSE
     LET t == tid  j == l + 1  kind == F(t, j, 1)  cid == F(t, j, 2)  a == F(t, j, 3)  b == F(t, j, 4)  c == F(t, j, 5)
         d == F(t, j, 6)  e == F(t, j, 7)  f == F(t, j, 8)  g == F(t, j, 9)  h == F(t, j, 10)
         bad(clause) == Reject(t, j, clause) /\ dead' = TRUE /\ UNCHANGED fr
         mine == fr # <<>> /\ TopF.cid = cid
     IN
     CASE kind = 1 ->     \* a call
            IF a \notin {0, 2} THEN bad("EntryStateNotTagOrGet")
            ELSE IF fr = <<>> THEN
                 (IF b = 1 THEN bad("OutermostCallAllowsEoo")
                  ELSE IF e = 1 THEN bad("OutermostCallCollectsSubstrate")
                  ELSE IF a # 0 \/ d # 0 THEN bad("OutermostCallNotFresh")
                  ELSE fr' = <<TFrame("Tag", FALSE, SpecName(c), 0, NoTag, FALSE, cid, FALSE, g, -1, -1)>> /\ UNCHANGED dead)
            ELSE IF TopF.st # "Value" \/ ~TopF.seen THEN bad("CallFromOutsideTheValueState")
            ELSE IF g # TopF.nxt THEN bad("MemberDoesNotStartWhereThePreviousEnded")
            ELSE IF a = 2 THEN     \* re-dispatch of an untagged CHOICE
                 (IF TopF.dec # "concrete" \/ TopF.spec = "none" THEN bad("RedispatchWithoutGuide")
                  ELSE IF d # TopF.ntags \/ c # 3 \/ b # 0 THEN bad("RedispatchLosesContext")
                  ELSE fr' = Append(fr, TFrame("Get", FALSE, "map", d, TopF.tag, TopF.indef, cid, e = 1, g, TopF.cstart, TopF.flen))
                       /\ UNCHANGED dead)
            ELSE IF TopF.tag.k # 1 /\ ~TopF.indef /\ TopF.dec # "raw" /\ ~PrimitiveChoiceWrapper(TopF, c) THEN bad("MemberOfPrimitiveEncoding")
            ELSE IF b = 1 /\ ~TopF.indef THEN bad("EooAllowedInsideDefiniteLength")
            ELSE IF TopF.dec = "explicit" /\ (d # TopF.ntags \/ SpecName(c) # TopF.spec) THEN bad("ExplicitUnwrapLosesContext")
            ELSE IF TopF.dec # "explicit" /\ d # 0 THEN bad("MemberInheritsTags")
            ELSE /\ fr' = Append(fr, TFrame("Tag", b = 1, SpecName(c), d, NoTag, FALSE, cid, e = 1, g, -1, -1))
                 /\ UNCHANGED dead
                 /\ (TopF.tag.k # 1 /\ ~TopF.indef /\ TopF.dec # "raw" => PrintT(<<"DEV", Traces[t].id, j, "PrimitiveChoiceWrapper">>))
       [] kind = 2 ->     \* end-of-contents found
            IF ~mine THEN bad("EventOfSuspendedFrame")
            ELSE IF ~TopF.fresh \/ ~TopF.eoo THEN bad("EooNotAllowedHere")
            ELSE IF Len(fr) = 1 THEN bad("OutermostCallReturnsEoo")
            ELSE IF g # TopF.p0 + 2 THEN bad("EooNotTwoOctets")
            ELSE fr' = Returned(g) /\ UNCHANGED dead
       [] kind = 3 ->     \* a state block is entered
            IF ~mine THEN bad("EventOfSuspendedFrame")
            ELSE IF TopF.wait THEN bad("BySpecOutcomeMissing")
            ELSE IF StName(a) # TopF.st \/ (TopF.st = "Value" /\ TopF.seen) THEN bad("UnexpectedState")
            ELSE IF a = 2 THEN    \* Get: the tag and length just read
                 LET tg == [c |-> b, k |-> c, n |-> d]
                     gg == [TopF EXCEPT !.tag = tg, !.indef = (e = 1), !.ntags = f, !.fresh = FALSE, !.steps = @ + 1,
                                        !.cstart = g, !.nxt = g, !.flen = IF e = 1 THEN -1 ELSE h]
                 IN IF TopF.entry = "Tag" /\ f # TopF.ntags + 1 THEN bad("TagStackNotExtendedByOne")
                    ELSE IF TopF.entry = "Get" /\ (f # TopF.ntags \/ tg # TopF.tag \/ (e = 1) # TopF.indef) THEN bad("RedispatchChangedTheTag")
                    ELSE IF TopF.entry = "Tag" /\ g < TopF.p0 + 2 THEN bad("HeaderShorterThanTwoOctets")
                    ELSE IF TopF.entry = "Get" /\ (g # TopF.p0 \/ g # TopF.cstart) THEN bad("RedispatchMovedTheInput")
                    ELSE fr' = ReplaceF([gg EXCEPT !.st = NextState(gg, NoEnv)]) /\ UNCHANGED dead
            ELSE IF a = 3 THEN    \* BySpec: the outcome follows in a `spec` event
                 fr' = ReplaceF([TopF EXCEPT !.wait = TRUE, !.fresh = FALSE]) /\ UNCHANGED dead
            ELSE IF a = 6 THEN    \* Value: the decoder about to run
                 (IF DecName(b) # TopF.dec THEN bad("WrongDecoderKind")
                  ELSE fr' = ReplaceF([TopF EXCEPT !.seen = TRUE]) /\ UNCHANGED dead)
            ELSE IF a = 8 THEN fr' = ReplaceF([TopF EXCEPT !.st = "Raised"]) /\ UNCHANGED dead
            ELSE fr' = ReplaceF([TopF EXCEPT !.st = NextState(TopF, NoEnv), !.dec = DecoderOf(TopF, NoEnv), !.fresh = FALSE,
                                             !.steps = @ + 1])
                 /\ UNCHANGED dead
       [] kind = 4 ->     \* outcome of the BySpec block
            IF ~mine THEN bad("EventOfSuspendedFrame")
            ELSE IF ~TopF.wait THEN bad("BySpecOutcomeUnexpected")
            ELSE IF TopF.spec = "plain" /\ c # 2 /\ (a = 1) # (c = 1) THEN bad("CandidateDoesNotMatchTheTags")
            ELSE IF TopF.spec = "plain" /\ c = 2 THEN bad("GuideKindChanged")
            ELSE LET env == [chosen |-> a = 1, concrete |-> b = 1]
                 IN fr' = ReplaceF([TopF EXCEPT !.wait = FALSE, !.st = NextState(TopF, env), !.dec = DecoderOf(TopF, env),
                                                !.steps = @ + 1]) /\ UNCHANGED dead
       [] kind = 5 ->     \* return
            IF ~mine THEN bad("EventOfSuspendedFrame")
            ELSE IF TopF.st # "Value" \/ ~TopF.seen THEN bad("ReturnWithoutRunningADecoder")
            ELSE IF a # 1 /\ ~TopF.collect THEN bad("ReturnsNoValue")
            ELSE IF TopF.flen >= 0 /\ g # TopF.cstart + TopF.flen THEN bad("DefiniteFrameDoesNotEndAtItsLength")
            ELSE IF TopF.kids > 0 /\ g # TopF.nxt THEN bad("MembersDoNotFillTheContents")
            ELSE fr' = Returned(g) /\ UNCHANGED dead
       [] kind = 9 ->     \* outcome of the whole call
            IF a = 1 /\ fr # <<>> THEN bad("ValueWithOpenFrames")
            ELSE IF a \notin {1, 2} THEN bad("ForeignOutcome")
            ELSE IF b > FrameBound(c) THEN bad("TooManyFrames")
            ELSE UNCHANGED <<fr, dead>>
       [] OTHER -> bad("UnknownEvent")

TraceSpec == TraceInit /\ [][Step]_tvars
=============================================================================
