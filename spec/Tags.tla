-------------------------------- MODULE Tags --------------------------------
(***************************************************************************)
(* The tag algebra of the type system (type/tag.py: Tag, TagSet; type/     *)
(* tagmap.py: TagMap), the mechanism under C13's last sentence: "Implicit  *)
(* tagging replaces only the outermost tag and keeps its primitive/        *)
(* constructed form; explicit tagging adds one constructed tag and refuses *)
(* the UNIVERSAL class."                                                   *)
(* A tag is [c |-> class 0..3, k |-> constructed 0/1, n |-> number]; a tag *)
(* set is the sequence of tags from the base (innermost) to the outermost. *)
(* The machine builds a tag set by a history of tagging operations; every  *)
(* reachable state is replayed into pyasn1 (TagSet.tagImplicitly /         *)
(* tagExplicitly and, through them, Asn1Type.subtype) and the observables  *)
(* are compared: the tags, length, base tag, prefix ("super tag set")      *)
(* relation, equality (which ignores the form bit) and TagMap lookups.     *)
(***************************************************************************)
EXTENDS Naturals, Sequences, FiniteSets, TLC

CONSTANTS MaxOps

Tag(c, k, n) == [c |-> c, k |-> k, n |-> n]
Bases == { <<Tag(0, 0, 2)>>, <<Tag(0, 1, 16)>>, <<>> }      \* INTEGER, SEQUENCE, an untagged CHOICE / ANY
OpTags == { Tag(c, k, n) : c \in {0, 1, 2}, k \in {0, 1}, n \in {0, 31} }
Ops == [o : {"I", "E"}, t : OpTags]

Refused == [ok |-> FALSE]
(* implicit: the outermost tag is replaced, its form kept; on an empty tag set the tag is simply added, form as given *)
(* explicit: one more tag, always constructed; the UNIVERSAL class is refused                                         *)
Apply(s, op) ==
  IF op.o = "I"
  THEN IF s = <<>> THEN [ok |-> TRUE, s |-> <<op.t>>]
       ELSE [ok |-> TRUE, s |-> [s EXCEPT ![Len(s)] = Tag(op.t.c, s[Len(s)].k, op.t.n)]]
  ELSE IF op.t.c = 0 THEN Refused
       ELSE [ok |-> TRUE, s |-> Append(s, Tag(op.t.c, 1, op.t.n))]

(* observables *)
Key(t) == <<t.c, t.n>>                                     \* what equality and hashing look at: not the form bit
Keys(s) == [i \in 1..Len(s) |-> Key(s[i])]
IsPrefix(a, b) == Len(a) <= Len(b) /\ Keys(a) = SubSeq(Keys(b), 1, Len(a))       \* a.isSuperTagSetOf(b)

(* a tag map: present (exact matches), skip (refused even if a default exists), default *)
Lookup(present, skip, hasDefault, s) ==
  IF \E p \in present : Keys(p) = Keys(s) THEN "present"
  ELSE IF \E p \in skip : Keys(p) = Keys(s) THEN "refused"
  ELSE IF hasDefault THEN "default" ELSE "refused"

VARIABLES base, hist, cur, okv
vars == <<base, hist, cur, okv>>
Init == base \in Bases /\ hist = <<>> /\ cur = base /\ okv = TRUE
Next == /\ okv /\ Len(hist) < MaxOps
        /\ \E op \in Ops : LET r == Apply(cur, op) IN
              /\ hist' = Append(hist, op) /\ okv' = r.ok /\ cur' = IF r.ok THEN r.s ELSE cur
        /\ UNCHANGED base
Spec == Init /\ [][Next]_vars

(* laws *)
TypeOK == \A i \in 1..Len(cur) : cur[i].c \in 0..3 /\ cur[i].k \in 0..1
(* implicit tagging never changes the number of tags (except on an empty set) nor any form bit *)
ImplicitKeepsShape == [][(okv' /\ hist' # hist /\ hist'[Len(hist')].o = "I" /\ cur # <<>>)
                          => (Len(cur') = Len(cur) /\ (\A i \in 1..Len(cur) : cur'[i].k = cur[i].k)
                              /\ \A j \in 1..(Len(cur) - 1) : cur'[j] = cur[j])]_vars
(* explicit tagging adds exactly one constructed, non-universal tag and leaves the others alone *)
ExplicitAddsOne == [][(okv' /\ hist' # hist /\ hist'[Len(hist')].o = "E")
                       => (Len(cur') = Len(cur) + 1 /\ cur'[Len(cur')].k = 1 /\ cur'[Len(cur')].c # 0
                           /\ SubSeq(cur', 1, Len(cur)) = cur)]_vars
UniversalExplicitRefused == [][(hist' # hist /\ hist'[Len(hist')].o = "E" /\ hist'[Len(hist')].t.c = 0) => ~okv']_vars
BaseIsPrefix == okv => (\A i \in 1..(Len(base) - 1) : cur[i] = base[i])
=============================================================================
