-------------------------------- MODULE Time --------------------------------
(***************************************************************************)
(* X.680 GeneralizedTime (46) and UTCTime (47) as text, and the canonical  *)
(* restrictions of X.690 11.7 / 11.8 (C20).                                *)
(*   GeneralizedTime  YYYYMMDDHH[MM[SS]][(.|,)f+][Z | (+|-)HH[MM]]         *)
(*   UTCTime          YYMMDDHHMM[SS](Z | (+|-)HHMM)                        *)
(* A parsed time is [ok, date, hh, mm, ss, frac, zone] with mm/ss = -1     *)
(* when absent, frac the fraction digits (<<>> = none), zone "Z", "local"  *)
(* or "offset" (off = signed minutes).                                     *)
(***************************************************************************)
EXTENDS Naturals, Integers, Sequences, TLC

IsDigit(c) == c >= 48 /\ c <= 57
AllDigits(s) == \A i \in 1..Len(s) : IsDigit(s[i])
D2(s, i) == (s[i] - 48) * 10 + (s[i + 1] - 48)       \* two digits at i, i+1

RECURSIVE StripTrailingZeros(_)
StripTrailingZeros(s) == IF Len(s) > 0 /\ s[Len(s)] = 48 THEN StripTrailingZeros(SubSeq(s, 1, Len(s) - 1)) ELSE s

IndexIn(s, C) == LET I == {i \in 1..Len(s) : s[i] \in C} IN IF I = {} THEN 0 ELSE CHOOSE i \in I : \A j \in I : i <= j

NoTime == [ok |-> FALSE]

(* zone suffix -> [ok, zone, n (length of the suffix)] *)
ZoneOf(s, short) ==
  IF Len(s) = 0 THEN [ok |-> TRUE, zone |-> "local", off |-> 0]
  ELSE IF s = <<90>> THEN [ok |-> TRUE, zone |-> "Z", off |-> 0]
  ELSE IF s[1] \in {43, 45} /\ AllDigits(Tail(s)) /\ (Len(s) = 5 \/ (short /\ Len(s) = 3))
       THEN LET hh == D2(s, 2) mm == IF Len(s) = 5 THEN D2(s, 4) ELSE 0 IN
            IF hh > 23 \/ mm > 59 THEN [ok |-> FALSE]
            ELSE [ok |-> TRUE, zone |-> "offset", off |-> (IF s[1] = 45 THEN -1 ELSE 1) * (hh * 60 + mm)]
  ELSE [ok |-> FALSE]

ParseTime(kind, s) ==
  LET yd == IF kind = "gentime" THEN 4 ELSE 2
      zi == IndexIn(s, {90, 43, 45})                      \* start of the zone suffix
      body == IF zi = 0 THEN s ELSE SubSeq(s, 1, zi - 1)
      zs == IF zi = 0 THEN <<>> ELSE SubSeq(s, zi, Len(s))
      fi == IndexIn(body, {46, 44})
      main == IF fi = 0 THEN body ELSE SubSeq(body, 1, fi - 1)
      frac == IF fi = 0 THEN <<>> ELSE SubSeq(body, fi + 1, Len(body))
      z == ZoneOf(zs, kind = "gentime")
      n == Len(main) - yd - 4                              \* digits after the date: 2 (HH), 4 (HHMM), 6 (HHMMSS)
  IN IF ~z.ok \/ ~AllDigits(main) \/ ~AllDigits(frac) \/ (fi # 0 /\ Len(frac) = 0) THEN NoTime
     ELSE IF n \notin {2, 4, 6} THEN NoTime
     ELSE IF kind = "utctime" /\ (n = 2 \/ fi # 0 \/ z.zone = "local") THEN NoTime
     ELSE LET hh == D2(main, yd + 5)
              mm == IF n >= 4 THEN D2(main, yd + 7) ELSE -1
              ss == IF n = 6 THEN D2(main, yd + 9) ELSE -1
              mon == D2(main, yd + 1) day == D2(main, yd + 3)
          IN IF hh > 23 \/ mm > 59 \/ ss > 59 \/ mon < 1 \/ mon > 12 \/ day < 1 \/ day > 31 THEN NoTime
             ELSE [ok |-> TRUE, date |-> SubSeq(main, 1, yd + 4), hh |-> hh, mm |-> mm, ss |-> ss, frac |-> frac,
                   zone |-> z.zone, off |-> z.off, comma |-> (fi # 0 /\ body[fi] = 44)]

(* canonical form of X.690 11.7 (GeneralizedTime) / 11.8 (UTCTime) *)
Canonical(kind, s) ==
  LET p == ParseTime(kind, s) IN
  /\ p.ok /\ p.zone = "Z" /\ ~p.comma
  /\ (Len(p.frac) = 0 \/ p.frac[Len(p.frac)] # 48)
(* (X.690 11.7.2 also wants the seconds element; the property checked here lists UTC designator, decimal  *)
(*  point, no trailing zeros / dangling point, so nothing more is demanded)                               *)

(* two UTC times with seconds denote the same instant (fractions compared as decimal fractions) *)
SameInstantZ(kind, a, b) ==
  LET p == ParseTime(kind, a) q == ParseTime(kind, b) IN
  /\ p.ok /\ q.ok /\ p.zone = "Z" /\ q.zone = "Z"
  /\ p.date = q.date /\ p.hh = q.hh /\ p.mm = q.mm /\ p.ss = q.ss
  /\ StripTrailingZeros(p.frac) = StripTrailingZeros(q.frac)

(***************************************************************************)
(* Named deviations of the CER/DER time encoder (open findings F22, F32):  *)
(* it scans the fraction backwards from its 4th digit (or its last one)    *)
(* and deletes EVERY zero it meets, not only trailing ones, and never looks *)
(* at digits past the 4th.  LibTimeOut reproduces its output exactly, so   *)
(* only outputs equal to it are attributed to the findings:                *)
(*   F22  a zero inside the fraction was deleted (another instant)         *)
(*   F32  trailing zeros from the 5th digit on were kept (not canonical)   *)
(***************************************************************************)
NonZero(c) == c # 48
LibFrac(f) == LET w == IF Len(f) < 4 THEN Len(f) ELSE 4
              IN SelectSeq(SubSeq(f, 1, w), NonZero) \o SubSeq(f, w + 1, Len(f))
LibTimeOut(s) ==      \* s = <main> "." <frac> "Z"
  LET fi == IndexIn(s, {46})
      main == SubSeq(s, 1, fi - 1)
      frac == SubSeq(s, fi + 1, Len(s) - 1)
  IN IF fi = 0 THEN s ELSE main \o (IF LibFrac(frac) = <<>> THEN <<>> ELSE <<46>> \o LibFrac(frac)) \o <<90>>
LibTimeDevs(s) ==
  LET fi == IndexIn(s, {46})
      frac == IF fi = 0 THEN <<>> ELSE SubSeq(s, fi + 1, Len(s) - 1)
      w == IF Len(frac) < 4 THEN Len(frac) ELSE 4
      t == StripTrailingZeros(frac)
  IN (IF \E i \in 1..w : frac[i] = 48 /\ i < Len(t) THEN {"F22"} ELSE {}) \cup
     (IF Len(frac) > 4 /\ frac[Len(frac)] = 48 THEN {"F32"} ELSE {})

(* the input can be put into canonical form without arithmetic: UTC, seconds present, decimal point *)
Canonicalizable(kind, s) == LET p == ParseTime(kind, s) IN p.ok /\ p.zone = "Z" /\ p.ss # -1 /\ ~p.comma
NotUTC(kind, s) == LET p == ParseTime(kind, s) IN p.ok /\ p.zone # "Z"
=============================================================================
