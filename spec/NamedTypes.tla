----------------------------- MODULE NamedTypes ------------------------------
(***************************************************************************)
(* The component maps a SEQUENCE/SET decoder relies on (type/namedtype.py: *)
(* NamedTypes), part of the mechanism behind C01, C09, C10: which          *)
(* components may show up at a position when OPTIONAL/DEFAULT ones can be  *)
(* left out, and where a tag found there belongs.                          *)
(*   comps = sequence of [mode |-> "req" | "opt" | "def", tag |-> 1..NTags] *)
(* with pairwise different tags.                                           *)
(*   Window(cs, i)   positions that can be the next element on the wire    *)
(*                   when position i is due: i itself and, while the       *)
(*                   components are skippable, their successors, up to and *)
(*                   including the first mandatory one                     *)
(*   NearTags(cs, i) the tags of Window(cs, i)                             *)
(*   NearPos(cs, t, i) the position in the window carrying tag t           *)
(* The generator machine enumerates every component list up to MaxLen;     *)
(* each state is replayed into pyasn1 (harness/checks/c09.py).             *)
(***************************************************************************)
EXTENDS Naturals, Sequences, FiniteSets, TLC

CONSTANTS MaxLen, NTags

Skippable(c) == c.mode \in {"opt", "def"}

RECURSIVE Window(_, _)
Window(cs, i) ==
  IF i > Len(cs) THEN {}
  ELSE IF Skippable(cs[i]) THEN {i} \cup Window(cs, i + 1) ELSE {i}

NearTags(cs, i) == {cs[j].tag : j \in Window(cs, i)}
NearPos(cs, t, i) == CHOOSE j \in Window(cs, i) : cs[j].tag = t
Required(cs) == {i \in 1..Len(cs) : cs[i].mode = "req"}
PosOfTag(cs, t) == CHOOSE i \in 1..Len(cs) : cs[i].tag = t
HasSkippable(cs) == \E i \in 1..Len(cs) : Skippable(cs[i])
MinTag(cs) == CHOOSE t \in {cs[i].tag : i \in 1..Len(cs)} : \A i \in 1..Len(cs) : t <= cs[i].tag

Comp == [mode : {"req", "opt", "def"}, tag : 1..NTags]
DistinctTags(cs) == \A i, j \in 1..Len(cs) : i # j => cs[i].tag # cs[j].tag
Lists == UNION {{cs \in [1..n -> Comp] : DistinctTags(cs)} : n \in 1..MaxLen}

VARIABLES cs
Init == cs \in Lists
Next == UNCHANGED cs
Spec == Init /\ [][Next]_cs

(* laws of the window (oracle validation) *)
WindowStartsAtI == \A i \in 1..Len(cs) : i \in Window(cs, i)
WindowIsAnInterval == \A i \in 1..Len(cs) : \A j \in Window(cs, i) : \A k \in i..j : k \in Window(cs, i)
WindowEndsAtFirstMandatory ==
  \A i \in 1..Len(cs) : \A j \in Window(cs, i) : (j > i => \A k \in i..(j - 1) : Skippable(cs[k]))
=============================================================================
