----------------------------- MODULE CacheWrap ------------------------------
(***************************************************************************)
(* The seek-back cache pyasn1 puts in front of non-seekable streams        *)
(* (codec/streaming.py CachingStreamWrapper), C11.                         *)
(*                                                                         *)
(* MECHANISM: the octets read from the raw stream are kept in a cache;     *)
(* reads are served from the cache first; writing the mark ("no seek will  *)
(* go before this point") drops the consumed prefix of the cache - and     *)
(* RENUMBERS positions - once the cache position exceeds Buf.              *)
(*   rawPos  octets taken from the raw stream so far                       *)
(*   clen    octets in the cache,  cpos  position inside the cache          *)
(*   base    GHOST: absolute offset of the first cached octet              *)
(*   mark    marked position, in the wrapper's current numbering           *)
(* IDEAL: a seekable stream over the same octets: position ipos, mark      *)
(* imark (absolute).  Refinement mapping: ipos = base + cpos,              *)
(* imark = base + mark; every read/peek returns the octets [ipos, ipos+k). *)
(* Contract of the client (the decoder): seek back only to >= mark, write  *)
(* the mark only as the current position.                                  *)
(***************************************************************************)
EXTENDS Naturals, Integers, Sequences, TLC

CONSTANTS Size,     \* length of the raw stream
          Buf,      \* io.DEFAULT_BUFFER_SIZE in model units
          Reads     \* set of read sizes offered to the client

Min(a, b) == IF a <= b THEN a ELSE b
Max(a, b) == IF a >= b THEN a ELSE b

VARIABLES rawPos, base, cpos, clen, mark, out
vars == <<rawPos, base, cpos, clen, mark, out>>

Abs == base + cpos

Init == rawPos = 0 /\ base = 0 /\ cpos = 0 /\ clen = 0 /\ mark = 0 /\ out = <<"init", 0, 0>>

(* blocking raw stream: a read returns what was asked for, or what is left *)
Got(n) == Min(n, Size - Abs)

Read(n) == LET got == Got(n)
               fromCache == Min(got, clen - cpos)
           IN /\ cpos' = cpos + got
              /\ clen' = Max(clen, cpos + got)
              /\ rawPos' = rawPos + (got - fromCache)
              /\ out' = <<"read", Abs, got>>
              /\ UNCHANGED <<base, mark>>

Peek(n) == LET got == Got(n)
               fromCache == Min(got, clen - cpos)
           IN /\ clen' = Max(clen, cpos + got)
              /\ rawPos' = rawPos + (got - fromCache)
              /\ out' = <<"peek", Abs, got>>
              /\ UNCHANGED <<base, mark, cpos>>

SeekBack(d) == /\ d <= cpos /\ cpos - d >= mark          \* never before the mark
               /\ cpos' = cpos - d /\ out' = <<"seek", cpos - d, 0>>
               /\ UNCHANGED <<rawPos, base, clen, mark>>

SetMark == /\ out' = <<"mark", 0, 0>>
           /\ IF cpos > Buf
                THEN base' = base + cpos /\ clen' = clen - cpos /\ cpos' = 0 /\ mark' = 0
                ELSE mark' = cpos /\ UNCHANGED <<base, clen, cpos>>
           /\ UNCHANGED rawPos

Next == (\E n \in Reads : Read(n)) \/ (\E n \in Reads : Peek(n)) \/ (\E d \in 1..Size : SeekBack(d)) \/ SetMark
Spec == Init /\ [][Next]_vars

(* bookkeeping invariant (also the inductive invariant given to Apalache for unbounded sizes) *)
IndInv == /\ 0 <= cpos /\ cpos <= clen /\ base + clen = rawPos /\ rawPos <= Size
          /\ 0 <= mark /\ mark <= cpos
(* the cache never holds more than the unconsumed part plus Buf once the mark has just been written *)
CacheBounded == (out[1] = "mark") => (cpos <= Buf)

(***************************************************************************)
(* Refinement: the ideal seekable stream                                   *)
(***************************************************************************)
ipos == base + cpos
imark == base + mark
IdealRead == \E n \in Reads : ipos' = ipos + Min(n, Size - ipos) /\ imark' = imark
IdealStep == \/ IdealRead
             \/ (ipos' = ipos /\ imark' = imark)                         \* peek, tell
             \/ (ipos' < ipos /\ ipos' >= imark /\ imark' = imark)        \* seek back, not before the mark
             \/ (ipos' = ipos /\ imark' = ipos)                           \* mark at the current position
RefinesSeekable == [][IdealStep]_<<ipos, imark>>
=============================================================================
