---------------------------- MODULE Trace_Stream ----------------------------
(***************************************************************************)
(* Acceptor for executions of the real StreamingDecoder (C05, C06 and C07  *)
(* streaming clauses, C11 kind independence).                              *)
(*                                                                         *)
(* One trace = one arrival schedule driven against the real iterator:      *)
(*   [id, ends, extra, cansay, ev] with ev a flat sequence of triples      *)
(*     <<k, 0, 0>>, k > 0      k more octets became available (Arrive)     *)
(*     <<0, 0, 0>>             the source was closed (Close)               *)
(*     <<c, idx, pos>>, c < 0  one next() on the iterator (Poll):          *)
(*         c = -1 object (idx = which reference object it equals, 0 = none;*)
(*                pos = absolute stream position afterwards, -1 unknown)   *)
(*         c = -2 underrun object   c = -3 StopIteration                   *)
(*         c = -4 EndOfStreamError  c = -5 other library error             *)
(*         c = -6 anything else (foreign exception, None, non-object)      *)
(*       idx of a non-object poll: 1 = the source answered None during     *)
(*       this poll although data was there (spurious "no data yet")        *)
(* Every event is one step of the ideal layer (StreamIdeal): Arrive, Close *)
(* and IdealPoll with the logged observation bound to obs'.                *)
(***************************************************************************)
EXTENDS Naturals, Integers, Sequences, TLC, Json, IOUtils

SI == INSTANCE StreamIdeal WITH Ends <- <<>>, Extra <- 0, CanSay <- TRUE,
                                avail <- 0, closed <- FALSE, item <- 0, obs <- "none", polls <- 0

Traces == ndJsonDeserialize(IOEnv.TRACE_FILE)

VARIABLES tid, l, avail, closed, item, done
tvars == <<tid, l, avail, closed, item, done>>

NEv(t) == Len(Traces[t].ev) \div 3
Code(t, j) == Traces[t].ev[3 * j - 2]
ArgA(t, j) == Traces[t].ev[3 * j - 1]
ArgB(t, j) == Traces[t].ev[3 * j]

ObsName(c) == CASE c = -1 -> "obj" [] c = -2 -> "underrun" [] c = -3 -> "stop" [] c = -4 -> "eos"
                [] c = -5 -> "err" [] OTHER -> "crash"

Reject(t, j, clause) == PrintT(<<"REJECT", Traces[t].id, j, clause>>)
Dev(t, j, d) == PrintT(<<"DEV", Traces[t].id, j, {d}>>)

TraceInit == /\ tid \in 1..Len(Traces) /\ l = 0 /\ avail = 0 /\ closed = FALSE /\ item = 1 /\ done = FALSE

TraceArrive == /\ l < NEv(tid) /\ Code(tid, l + 1) > 0
               /\ avail' = avail + Code(tid, l + 1) /\ l' = l + 1 /\ UNCHANGED <<tid, closed, item, done>>

TraceClose == /\ l < NEv(tid) /\ Code(tid, l + 1) = 0
              /\ closed' = TRUE /\ l' = l + 1 /\ UNCHANGED <<tid, avail, item, done>>

TracePoll ==
  /\ l < NEv(tid) /\ Code(tid, l + 1) < 0
  /\ LET t == tid  j == l + 1
         tr == Traces[t]
         o == ObsName(Code(t, j))
         spurious == o # "obj" /\ ArgA(t, j) = 1
         want == IF spurious THEN "underrun" ELSE SI!IdealObs(tr.ends, tr.cansay, avail, closed, item)
     IN /\ IF done THEN Reject(t, j, "PollAfterEnd")
           ELSE IF o = want THEN
                (IF o = "obj"
                 THEN /\ (IF ArgA(t, j) = item THEN TRUE ELSE Reject(t, j, "WrongObject"))
                      /\ (IF ArgB(t, j) = -1 \/ ArgB(t, j) = tr.ends[item] THEN TRUE ELSE Reject(t, j, "WrongPosition"))
                 ELSE TRUE)
           ELSE /\ Reject(t, j, CASE o = "crash" -> "Crash"
                                  [] o = "err" -> "SpuriousError"
                                  [] want = "obj" -> "ObjectNotDelivered"
                                  [] want = "eos" -> "EosNotRaised"
                                  [] want = "stop" -> "NotStopped"
                                  [] OTHER -> "UnderrunNotReported")
                \* named deviation F7: closed inside an item, yet underrun is reported
                \* (only when unread octets remain at the logged position, i.e. the pending read was short)
                /\ (IF want = "eos" /\ o = "underrun" /\ (ArgB(t, j) = -1 \/ ArgB(t, j) < avail) THEN Dev(t, j, "F7") ELSE TRUE)
        /\ item' = IF o = "obj" THEN item + 1 ELSE item
        /\ done' = (o \in {"stop", "eos", "err", "crash"})
  /\ l' = l + 1 /\ UNCHANGED <<tid, avail, closed>>

TraceNext == TraceArrive \/ TraceClose \/ TracePoll
TraceSpec == TraceInit /\ [][TraceNext]_tvars
=============================================================================
