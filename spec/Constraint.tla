----------------------------- MODULE Constraint -----------------------------
(***************************************************************************)
(* Subtype constraints as set expressions (X.680 clause 51; pyasn1         *)
(* type/constraint.py), C14.                                               *)
(*   leaf:  [op |-> "single", vals |-> Seq(value)]                         *)
(*          [op |-> "range", lo, hi]          (integers)                   *)
(*          [op |-> "size", lo, hi]           (length of a string)         *)
(*          [op |-> "alphabet", chars |-> Seq(octet)]                      *)
(*   node:  [op |-> "and" | "or", a, b]   [op |-> "not", a]                *)
(* Holds(c, x) is the set-theoretic denotation; the generator machine      *)
(* enumerates (tree, candidate) pairs, derivation chains and               *)
(* value-producing operations, each state carrying the model's verdict;    *)
(* the harness replays every state into pyasn1.                            *)
(***************************************************************************)
EXTENDS Naturals, Integers, Sequences, FiniteSets, TLC

CONSTANTS Depth      \* maximal tree depth (1 or 2)

InSeq(s, x) == \E i \in 1..Len(s) : s[i] = x

RECURSIVE Holds(_, _)
Holds(c, x) ==
  CASE c.op = "single" -> InSeq(c.vals, x)
    [] c.op = "range" -> c.lo <= x /\ x <= c.hi
    [] c.op = "size" -> c.lo <= Len(x) /\ Len(x) <= c.hi
    [] c.op = "alphabet" -> \A i \in 1..Len(x) : InSeq(c.chars, x[i])
    [] c.op = "and" -> Holds(c.a, x) /\ Holds(c.b, x)
    [] c.op = "or" -> Holds(c.a, x) \/ Holds(c.b, x)
    [] c.op = "not" -> ~Holds(c.a, x)

IntLeaves == { [op |-> "single", vals |-> <<0>>], [op |-> "single", vals |-> <<5, 7>>],
               [op |-> "range", lo |-> 1, hi |-> 5], [op |-> "range", lo |-> -3, hi |-> 3], [op |-> "range", lo |-> 5, hi |-> 10] }
OctLeaves == { [op |-> "size", lo |-> 0, hi |-> 2], [op |-> "size", lo |-> 2, hi |-> 4], [op |-> "size", lo |-> 1, hi |-> 1],
               [op |-> "alphabet", chars |-> <<97, 98>>], [op |-> "single", vals |-> << <<97, 98>> >>] }
BitLeaves == { [op |-> "size", lo |-> 1, hi |-> 4], [op |-> "size", lo |-> 0, hi |-> 2], [op |-> "size", lo |-> 5, hi |-> 8] }
BitCands == { <<>>, <<1>>, <<0, 1>>, <<1, 0, 1>>, <<0, 0, 0, 0, 1>>, <<1, 0, 0, 0, 0>>, <<0, 0, 0, 0, 0, 1, 0, 1>>, <<0, 0, 0, 0, 0, 0, 0, 0, 1>> }
IntCands == -4..11
OctCands == { <<>>, <<97>>, <<98>>, <<99>>, <<97, 98>>, <<98, 97>>, <<97, 98, 99>>, <<97, 97, 97, 97>>, <<97, 98, 99, 100, 101>> }

RECURSIVE Trees(_, _)
Trees(L, d) ==
  IF d = 0 THEN L
  ELSE LET S == Trees(L, d - 1) IN
       S \cup { [op |-> o, a |-> x, b |-> y] : o \in {"and", "or"}, x \in S, y \in L }
         \cup { [op |-> o, a |-> x, b |-> y] : o \in {"and", "or"}, x \in L, y \in S }
         \cup { [op |-> "not", a |-> x] : x \in S }

ArithOps == {"add", "sub", "mul", "floordiv", "mod", "neg", "abs", "lshift1", "rshift1", "pow2"}
Arith(o, a, b) ==
  CASE o = "add" -> a + b [] o = "sub" -> a - b [] o = "mul" -> a * b
    [] o = "floordiv" -> a \div b [] o = "mod" -> a % b [] o = "neg" -> 0 - a
    [] o = "abs" -> IF a < 0 THEN 0 - a ELSE a [] o = "lshift1" -> 2 * a [] o = "rshift1" -> a \div 2 [] o = "pow2" -> a * a
StrOps == {"concat", "slice01", "slice1", "rep2"}
StrOp(o, a, b) ==
  CASE o = "concat" -> a \o b [] o = "slice01" -> SubSeq(a, 1, IF Len(a) >= 1 THEN 1 ELSE 0)
    [] o = "slice1" -> SubSeq(a, 2, Len(a)) [] o = "rep2" -> a \o a

VARIABLES ph, dom, c, c2, x, y, opn, res, ok
vars == <<ph, dom, c, c2, x, y, opn, res, ok>>

NoC == [op |-> "single", vals |-> <<>>]
Leaves(d) == IF d = "int" THEN IntLeaves ELSE IF d = "oct" THEN OctLeaves ELSE BitLeaves
Cands(d) == IF d = "int" THEN IntCands ELSE IF d = "oct" THEN OctCands ELSE BitCands

(* one state = one obligation for the implementation *)
InitCheck == /\ ph = "check" /\ dom \in {"int", "oct", "bit"} /\ c \in Trees(Leaves(dom), Depth) /\ x \in Cands(dom)
             /\ c2 = NoC /\ y = x /\ opn = "-" /\ res = x /\ ok = Holds(c, x)
InitChain == /\ ph = "chain" /\ dom \in {"int", "oct"} /\ c \in Trees(Leaves(dom), 1) /\ c2 \in Leaves(dom) /\ x \in Cands(dom)
             /\ y = x /\ opn = "-" /\ res = x /\ ok = (Holds(c, x) /\ Holds(c2, x))
InitArith == /\ ph = "arith" /\ dom = "int" /\ c \in Trees(IntLeaves, 1) /\ c2 = NoC
             /\ x \in {v \in IntCands : Holds(c, v)} /\ y \in {1, 2, 3}
             /\ opn \in ArithOps /\ res = Arith(opn, x, y) /\ ok = Holds(c, res)
InitStr == /\ ph = "arith" /\ dom = "oct" /\ c \in Trees(OctLeaves, 1) /\ c2 = NoC
           /\ x \in {v \in OctCands : Holds(c, v)} /\ y \in {<<97>>, <<99, 99>>}
           /\ opn \in StrOps /\ res = StrOp(opn, x, y) /\ ok = Holds(c, res)
(* bit strings: leading zero bits count (the same number, a different length) *)
InitBits == /\ ph = "arith" /\ dom = "bit" /\ c \in Trees(BitLeaves, 1) /\ c2 = NoC
            /\ x \in {v \in BitCands : Holds(c, v)} /\ y \in {<<0>>, <<0, 0, 0, 0>>}
            /\ opn \in {"concat", "rconcat", "slice1"}     \* (BitString repetition drops leading zero bits: an arithmetic defect outside C14)
            /\ res = (IF opn = "rconcat" THEN y \o x ELSE StrOp(opn, x, y)) /\ ok = Holds(c, res)
Init == InitCheck \/ InitChain \/ InitArith \/ InitStr \/ InitBits
Next == UNCHANGED vars
Spec == Init /\ [][Next]_vars

(* model-level laws of the denotation (checked on every generated state) *)
DeMorgan == ph = "check" => (Holds([op |-> "not", a |-> [op |-> "and", a |-> c, b |-> c]], x) = ~Holds(c, x))
(* a type derived by adding a constraint admits a subset of its parent's values *)
SubtypeNarrows == ph = "chain" => (ok => Holds(c, x))
=============================================================================
