----------------------------- MODULE Trace_Mech ------------------------------
(***************************************************************************)
(* Mechanism-level acceptor for the streaming decoder (C05, C06, C07):     *)
(* every read / seek / mark the real decoder performs on its source is one *)
(* event, checked against the read protocol of StreamMech:                 *)
(*   ReadOk      a read that gets all it asked for advances the position   *)
(*   ReadShort   a read that gets less is REWOUND (seek back to where it   *)
(*               started) and the poll ends with an underrun               *)
(*   ReadNone    a read answered None ends the poll with an underrun       *)
(*   ReadEof     an empty read from a closed source ends the poll with     *)
(*               the end-of-stream error                                   *)
(*   retry       the first read of the next poll REPEATS the failed read   *)
(*               (same position, same size)                                *)
(*   look-ahead  seeks go backwards only, never before the mark, and the   *)
(*               mark is written at the current position                   *)
(*   PosAtItemEnd  an object is delivered exactly when the position is the *)
(*               end of its encoding                                       *)
(* One trace = [id, ends, ev]; ev = flat 4-tuples <<kind, a, b, c>>:       *)
(*   1 arrive a octets (b = 1: and the source is closed)                   *)
(*   2 read: a = size asked for, b = octets delivered (-1 = None),         *)
(*           c = position before                                           *)
(*   3 seek: a = new absolute position, c = position before                *)
(*   4 mark := a                                                           *)
(*   5 poll ends: a = observation code (as in Trace_Stream), c = position  *)
(* The source (a seekable growing raw stream) is the harness's double, so  *)
(* what a read delivers is determined by avail/closed; the acceptor checks *)
(* that too (it validates the double) and everything the decoder chose.    *)
(***************************************************************************)
EXTENDS Naturals, Integers, Sequences, TLC, Json, IOUtils

Traces == ndJsonDeserialize(IOEnv.TRACE_FILE)
VARIABLES tid, l, avail, closed, item, pos, mark, pendP, pendN, short, cause, dead
tvars == <<tid, l, avail, closed, item, pos, mark, pendP, pendN, short, cause, dead>>

F(t, j, k) == Traces[t].ev[4 * (j - 1) + k]
NEv(t) == Len(Traces[t].ev) \div 4
Reject(t, j, clause) == PrintT(<<"REJECT", Traces[t].id, j, clause>>)
EndOf(e, i) == IF i = 0 THEN 0 ELSE IF i <= Len(e) THEN e[i] ELSE e[Len(e)]

TraceInit == /\ tid \in 1..Len(Traces) /\ l = 0 /\ avail = 0 /\ closed = FALSE /\ item = 1 /\ pos = 0 /\ mark = 0
             /\ pendP = -1 /\ pendN = 0        \* the read that failed and has to be repeated (-1: none)
             /\ short = 0                      \* octets of a short read still to be given back
             /\ cause = "none"                 \* why the current poll may end without an object
             /\ dead = FALSE

Step ==
  /\ l < NEv(tid) /\ l' = l + 1 /\ UNCHANGED tid
  /\ IF dead THEN UNCHANGED <<avail, closed, item, pos, mark, pendP, pendN, short, cause, dead>>
     ELSE
     LET t == tid  j == l + 1  kind == F(t, j, 1)  a == F(t, j, 2)  b == F(t, j, 3)  c == F(t, j, 4)
         bad(clause) == Reject(t, j, clause) /\ dead' = TRUE
                        /\ UNCHANGED <<avail, closed, item, pos, mark, pendP, pendN, short, cause>>
     IN
     CASE kind = 1 ->
            /\ avail' = avail + a /\ closed' = (closed \/ b = 1)
            /\ UNCHANGED <<item, pos, mark, pendP, pendN, short, cause, dead>>
       [] kind = 2 ->      \* read(a) -> b octets, at position c
            LET have == avail - pos
                want == IF a < 0 THEN have ELSE a
                deliver == IF a = 0 THEN 0 ELSE IF have >= want /\ want > 0 THEN want ELSE IF have > 0 THEN have ELSE IF closed THEN 0 ELSE -1
            IN IF c # pos THEN bad("ReadAtUnexpectedPosition")
               ELSE IF short > 0 THEN bad("ShortReadNotRewound")
               ELSE IF pendP # -1 /\ (pos # pendP \/ a # pendN) THEN bad("RetryDoesNotRepeatTheRead")
               ELSE IF b # deliver THEN bad("SourceDoubleInconsistent")
               ELSE /\ pos' = pos + (IF b > 0 THEN b ELSE 0)
                    /\ pendP' = -1 /\ pendN' = 0
                    /\ short' = IF a > 0 /\ b > 0 /\ b < a THEN b ELSE 0
                    /\ cause' = IF b = -1 THEN "none-read" ELSE IF a > 0 /\ b = 0 THEN "eof-read"
                                ELSE IF a > 0 /\ b < a THEN "short-read" ELSE "none"
                    /\ UNCHANGED <<avail, closed, item, mark, dead>>
       [] kind = 3 ->      \* seek to absolute a
            IF c # pos THEN bad("SeekFromUnexpectedPosition")
            ELSE IF a > pos THEN bad("ForwardSeek")
            ELSE IF a < mark THEN bad("SeekBeforeMark")
            ELSE IF short > 0 /\ a # pos - short THEN bad("ShortReadNotRewound")
            ELSE /\ pos' = a /\ short' = 0
                 /\ UNCHANGED <<avail, closed, item, mark, pendP, pendN, cause, dead>>
       [] kind = 4 ->      \* mark := a
            IF a # pos THEN bad("MarkNotAtCurrentPosition")
            ELSE mark' = a /\ UNCHANGED <<avail, closed, item, pos, pendP, pendN, short, cause, dead>>
       [] kind = 5 ->      \* the poll ends with observation a at position c
            IF c # pos THEN bad("PositionDriftedDuringPoll")
            ELSE IF short > 0 THEN bad("ShortReadNotRewound")
            ELSE IF a = -1 THEN    \* object
                 (IF item > Len(Traces[t].ends) \/ pos # Traces[t].ends[item] THEN bad("ObjectNotAtItemEnd")
                  ELSE /\ item' = item + 1 /\ cause' = "none"
                       /\ UNCHANGED <<avail, closed, pos, mark, pendP, pendN, short, dead>>)
            ELSE IF a = -2 THEN    \* underrun: needs a cause, and arms the retry
                 (IF cause \notin {"none-read", "short-read"} THEN bad("UnderrunWithoutAFailedRead")
                  ELSE /\ UNCHANGED <<avail, closed, item, pos, mark, short, dead>>
                       /\ cause' = "none"
                       /\ pendP' = pos /\ pendN' = F(t, j, 3))      \* b = size of the failed read (logged by the driver)
            ELSE IF a = -4 THEN    \* end-of-stream error: only after an empty read from a closed source
                 (IF cause # "eof-read" THEN bad("EosWithoutAnEmptyRead")
                  ELSE UNCHANGED <<avail, closed, item, pos, mark, pendP, pendN, short, cause, dead>>)
            ELSE UNCHANGED <<avail, closed, item, pos, mark, pendP, pendN, short, cause, dead>>

TraceSpec == TraceInit /\ [][Step]_tvars
=============================================================================
