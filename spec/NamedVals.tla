------------------------------ MODULE NamedVals ------------------------------
(***************************************************************************)
(* Named numbers and named bits (type/namedval.py: NamedValues, and their  *)
(* use by INTEGER, ENUMERATED and BIT STRING in type/univ.py): a table is a *)
(* one-to-one relation between names and numbers.                          *)
(* The generator machine enumerates every table of up to MaxLen pairs over *)
(* a small alphabet - valid or not - with the model's answers; each state  *)
(* is replayed into the library (C14 part: construction of scalar values   *)
(* from names).                                                            *)
(***************************************************************************)
EXTENDS Naturals, Sequences, FiniteSets, TLC

CONSTANTS MaxLen

Names == {"a", "b", "c"}
Numbers == {0, 1, 5}
Pair == [name : Names, num : Numbers]
Tables == UNION {[1..n -> Pair] : n \in 0..MaxLen}

Valid(t) == \A i, j \in 1..Len(t) : i # j => (t[i].name # t[j].name /\ t[i].num # t[j].num)
Has(t, nm) == \E i \in 1..Len(t) : t[i].name = nm
NumOf(t, nm) == (CHOOSE i \in 1..Len(t) : t[i].name = nm)   \* index; the number is t[that].num
HasNum(t, n) == \E i \in 1..Len(t) : t[i].num = n
NameOfNum(t, n) == t[CHOOSE i \in 1..Len(t) : t[i].num = n].name

(* BIT STRING from a list of names: the named positions are set, the length is the highest position + 1 *)
MaxNum(S) == CHOOSE m \in S : \A x \in S : x <= m
BitsOf(t, nms) == LET pos == {t[NumOf(t, nm)].num : nm \in nms}
                  IN IF pos = {} THEN <<>> ELSE [i \in 1..(MaxNum(pos) + 1) |-> IF (i - 1) \in pos THEN 1 ELSE 0]

VARIABLE tab
Init == tab \in Tables
Next == UNCHANGED tab
Spec == Init /\ [][Next]_tab

(* laws *)
ValidIsOneToOne == Valid(tab) => Cardinality({tab[i].name : i \in 1..Len(tab)}) = Len(tab)
                                 /\ Cardinality({tab[i].num : i \in 1..Len(tab)}) = Len(tab)
LookupInverse == Valid(tab) => \A i \in 1..Len(tab) : NameOfNum(tab, tab[i].num) = tab[i].name
=============================================================================
