--------------------------- MODULE Trace_Session ----------------------------
(***************************************************************************)
(* Acceptor for recorded sessions (C12).  One trace = [id, ends (one item  *)
(* layout per decoder), ev] with ev flat 5-tuples <<kind, d, a, b, c>>:    *)
(*   kind 1  decoder d fed a more octets (b = 1: and closed)               *)
(*   kind 2  one next() on decoder d: a = observation code (-1 obj,        *)
(*           -2 underrun, -3 stop, -4 eos, -5 error, -6 other), b = index  *)
(*           of the equal object of d's ISOLATED reference run (0 = none)  *)
(*   kind 3  snapshot of a shared object (d = which): a = digest id before *)
(*           the preceding step, b = after                                 *)
(*   kind 4  a one-shot codec call: a = outcome id, b = outcome id of the  *)
(*           same call in isolation (fresh objects, fresh codec instances) *)
(* Each event is one step of Session: Arrive/Close, Poll, (no-write check) *)
(* and OneShot.                                                            *)
(***************************************************************************)
EXTENDS Naturals, Integers, Sequences, TLC, Json, IOUtils
SI == INSTANCE StreamIdeal WITH Ends <- <<>>, Extra <- 0, CanSay <- TRUE, avail <- 0, closed <- FALSE, item <- 0,
                                obs <- "none", polls <- 0
Traces == ndJsonDeserialize(IOEnv.TRACE_FILE)
VARIABLES tid, l, avail, closed, item, done
tvars == <<tid, l, avail, closed, item, done>>
F(t, j, k) == Traces[t].ev[5 * (j - 1) + k]
NEv(t) == Len(Traces[t].ev) \div 5
Reject(t, j, clause) == PrintT(<<"REJECT", Traces[t].id, j, clause>>)
ObsName(c) == CASE c = -1 -> "obj" [] c = -2 -> "underrun" [] c = -3 -> "stop" [] c = -4 -> "eos" [] c = -5 -> "err" [] OTHER -> "crash"
ND(t) == Len(Traces[t].ends)

TraceInit == /\ tid \in 1..Len(Traces) /\ l = 0
             /\ avail = [d \in 1..ND(tid) |-> 0] /\ closed = [d \in 1..ND(tid) |-> FALSE]
             /\ item = [d \in 1..ND(tid) |-> 1] /\ done = [d \in 1..ND(tid) |-> FALSE]

Step ==
  /\ l < NEv(tid) /\ l' = l + 1 /\ UNCHANGED tid
  /\ LET t == tid j == l + 1 kind == F(t, j, 1) d == F(t, j, 2) a == F(t, j, 3) b == F(t, j, 4) IN
     CASE kind = 1 -> /\ avail' = [avail EXCEPT ![d] = @ + a] /\ closed' = [closed EXCEPT ![d] = (b = 1) \/ @]
                      /\ UNCHANGED <<item, done>>
       [] kind = 2 ->
            LET o == ObsName(a)
                want == SI!IdealObs(Traces[t].ends[d], TRUE, avail[d], closed[d], item[d])
            IN /\ (IF done[d] THEN Reject(t, j, "PollAfterEnd")
                   ELSE IF o # want THEN Reject(t, j, IF o \in {"err", "crash"} THEN "InterferenceError" ELSE "ObservationDiffersFromIsolatedRun")
                   ELSE IF o = "obj" /\ b # item[d] THEN Reject(t, j, "ObjectDiffersFromIsolatedRun")
                   ELSE TRUE)
               /\ item' = [item EXCEPT ![d] = IF o = "obj" THEN @ + 1 ELSE @]
               /\ done' = [done EXCEPT ![d] = o \in {"stop", "eos", "err", "crash"}]
               /\ UNCHANGED <<avail, closed>>
       [] kind = 3 -> /\ (IF a = b THEN TRUE ELSE Reject(t, j, "SharedObjectChanged")) /\ UNCHANGED <<avail, closed, item, done>>
       [] kind = 4 -> /\ (IF a = b THEN TRUE ELSE Reject(t, j, "OutcomeDependsOnHistory")) /\ UNCHANGED <<avail, closed, item, done>>

TraceSpec == TraceInit /\ [][Step]_tvars
=============================================================================
