------------------------------- MODULE RealObj -------------------------------
(***************************************************************************)
(* REAL value objects built from (mantissa, base, exponent) triples         *)
(* (type/univ.py: Real.prettyIn): base 2 and 10 only; a base-10 mantissa    *)
(* loses its trailing zeros to the exponent; equality is numeric.           *)
(* Generator: every triple over a small grid, with the model's normal form  *)
(* and the model's equalities between triples; replayed next to the other   *)
(* scalar machines (C14 part).                                              *)
(***************************************************************************)
EXTENDS Integers, Sequences, TLC

Mants == {0, 1, -1, 5, 10, -20, 100, 1000, 123, 250}
Bases == {2, 10, 8, 16}
Exps == {-2, -1, 0, 1, 3}

RECURSIVE Strip10(_, _)
Strip10(m, e) == IF m # 0 /\ m % 10 = 0 THEN Strip10(m \div 10, e + 1) ELSE <<m, e>>
(* TLC's % and \div on negative numbers round towards minus infinity; m % 10 = 0 is sign-independent and m \div 10 is exact then *)

Norm(m, b, e) == IF b \notin {2, 10} THEN <<"refused">>
                 ELSE IF b = 10 THEN LET r == Strip10(m, e) IN <<"ok", r[1], 10, r[2]>>
                 ELSE <<"ok", m, 2, e>>

(* numeric equality of two accepted triples with e >= 0 on both sides (integers suffice there) *)
RECURSIVE Pow(_, _)
Pow(b, n) == IF n = 0 THEN 1 ELSE b * Pow(b, n - 1)
Val(m, b, e) == m * Pow(b, e)

VARIABLES m, b, e
Init == m \in Mants /\ b \in Bases /\ e \in Exps
Next == UNCHANGED <<m, b, e>>
Spec == Init /\ [][Next]_<<m, b, e>>

NormKeepsTheValue == (b = 10 /\ e >= 0) => LET n == Norm(m, b, e) IN Val(n[2], 10, n[4]) = Val(m, b, e)
NormHasNoTrailingZero == b = 10 => LET n == Norm(m, b, e) IN n[2] = 0 \/ n[2] % 10 # 0
=============================================================================
