---------------------------- MODULE Trace_Clean -----------------------------
(***************************************************************************)
(* C08: arbitrary input fails cleanly.  One trace = one batch of inputs    *)
(* (all octet strings of a length over the structural alphabet, or all     *)
(* single mutations of one valid encoding) given to one decoder in one     *)
(* mode; one event (= one step) per input: flat 4-tuples                   *)
(*   <<status, steps, length, reference>>                                  *)
(*   status: 1 value object + remainder   2 library error (PyAsn1Error,    *)
(*           incl. underrun)   3 foreign exception   4 None / schema       *)
(*           object / non-ASN.1 returned   5 no termination in time        *)
(*   steps : read + seek calls the decoder made on its input stream        *)
(*   reference: what the reference reader (X690!Parse) says about the      *)
(*           input, filled in by the acceptor's caller when cheap: 0 n/a   *)
(* StepBound is the termination measure of the mechanism layer: every      *)
(* action of StreamMech either advances pos, ends the poll or ends the     *)
(* item, so the number of stream calls is linear in the input length.      *)
(***************************************************************************)
EXTENDS Naturals, Sequences, TLC, Json, IOUtils
Traces == ndJsonDeserialize(IOEnv.TRACE_FILE)
StepA == 24
StepC == 64
StepBound(len) == StepA * len + StepC
VARIABLES tid, l
F(t, j, k) == Traces[t].ev[4 * (j - 1) + k]
NEv(t) == Len(Traces[t].ev) \div 4
TraceInit == tid \in 1..Len(Traces) /\ l = 0
Step == /\ l < NEv(tid)
        /\ LET t == tid j == l + 1 st == F(t, j, 1) IN
           /\ (IF st \in {1, 2} THEN TRUE
               ELSE PrintT(<<"REJECT", Traces[t].id, j, CASE st = 3 -> "ForeignException" [] st = 4 -> "NotAValue"
                                                            [] OTHER -> "NoTermination">>))
           /\ (IF F(t, j, 2) <= StepBound(F(t, j, 3)) THEN TRUE ELSE PrintT(<<"REJECT", Traces[t].id, j, "TooManySteps">>))
        /\ l' = l + 1 /\ UNCHANGED tid
TraceSpec == TraceInit /\ [][Step]_<<tid, l>>
=============================================================================
