------------------------------ MODULE CharStr -------------------------------
(***************************************************************************)
(* The text layer of the restricted character string types (type/char.py): *)
(* a value is a sequence of code points; its octets are the code points    *)
(* under the type's character encoding.  Encoders and strict decoders of   *)
(* the five encodings in use, transcribed (ISO 10646 / RFC 3629 / RFC 2781): *)
(*   "ascii"   NumericString PrintableString IA5String VisibleString       *)
(*   "latin1"  TeletexString VideotexString GraphicString GeneralString    *)
(*   "utf8"    UTF8String     "utf16" BMPString     "utf32" UniversalString *)
(* The generator machine picks a text and an encoding; every state carries *)
(* the model's octets (or "not encodable"), and damaged octet strings with *)
(* the model's verdict; all are replayed into the library (C14 part:       *)
(* "no public way of producing a scalar value object ... (construction,    *)
(* decoding)", here with the exact value).                                 *)
(***************************************************************************)
EXTENDS Naturals, Sequences, TLC

CONSTANTS MaxLen

CodePoints == {65, 127, 128, 255, 256, 2047, 2048, 55295, 55296, 57343, 57344, 65535, 65536, 1114111}
Encodings == {"ascii", "latin1", "utf8", "utf16", "utf32"}
Surrogate(c) == c >= 55296 /\ c <= 57343

Fail == [ok |-> FALSE]
Ok(o) == [ok |-> TRUE, o |-> o]

Enc1(enc, c) ==      \* one code point
  CASE enc = "ascii" -> IF c <= 127 THEN Ok(<<c>>) ELSE Fail
    [] enc = "latin1" -> IF c <= 255 THEN Ok(<<c>>) ELSE Fail
    [] enc = "utf8" ->
         IF Surrogate(c) THEN Fail
         ELSE IF c <= 127 THEN Ok(<<c>>)
         ELSE IF c <= 2047 THEN Ok(<<192 + (c \div 64), 128 + (c % 64)>>)
         ELSE IF c <= 65535 THEN Ok(<<224 + (c \div 4096), 128 + ((c \div 64) % 64), 128 + (c % 64)>>)
         ELSE Ok(<<240 + (c \div 262144), 128 + ((c \div 4096) % 64), 128 + ((c \div 64) % 64), 128 + (c % 64)>>)
    [] enc = "utf16" ->
         IF Surrogate(c) THEN Fail
         ELSE IF c <= 65535 THEN Ok(<<c \div 256, c % 256>>)
         ELSE LET v == c - 65536  hi == 55296 + (v \div 1024)  lo == 56320 + (v % 1024)
              IN Ok(<<hi \div 256, hi % 256, lo \div 256, lo % 256>>)
    [] enc = "utf32" -> IF Surrogate(c) THEN Fail ELSE Ok(<<0, c \div 65536, (c \div 256) % 256, c % 256>>)

RECURSIVE Encode(_, _)
Encode(enc, cps) ==
  IF cps = <<>> THEN Ok(<<>>)
  ELSE LET h == Enc1(enc, Head(cps))  t == Encode(enc, Tail(cps))
       IN IF h.ok /\ t.ok THEN Ok(h.o \o t.o) ELSE Fail

(* strict decoders: [ok, cps] *)
Cont(b) == b >= 128 /\ b <= 191
RECURSIVE Decode(_, _)
Decode(enc, o) ==
  IF o = <<>> THEN [ok |-> TRUE, cps |-> <<>>]
  ELSE
  LET n == Len(o)
      one(c, k) == LET r == Decode(enc, SubSeq(o, k + 1, n)) IN IF r.ok THEN [ok |-> TRUE, cps |-> <<c>> \o r.cps] ELSE [ok |-> FALSE]
      bad == [ok |-> FALSE]
  IN CASE enc = "ascii" -> IF o[1] <= 127 THEN one(o[1], 1) ELSE bad
       [] enc = "latin1" -> one(o[1], 1)
       [] enc = "utf8" ->
            IF o[1] <= 127 THEN one(o[1], 1)
            ELSE IF o[1] >= 194 /\ o[1] <= 223 THEN (IF n >= 2 /\ Cont(o[2]) THEN one((o[1] - 192) * 64 + (o[2] - 128), 2) ELSE bad)
            ELSE IF o[1] >= 224 /\ o[1] <= 239 THEN
                 (IF n >= 3 /\ Cont(o[2]) /\ Cont(o[3])
                  THEN LET c == (o[1] - 224) * 4096 + (o[2] - 128) * 64 + (o[3] - 128)
                       IN IF c < 2048 \/ Surrogate(c) THEN bad ELSE one(c, 3)
                  ELSE bad)
            ELSE IF o[1] >= 240 /\ o[1] <= 244 THEN
                 (IF n >= 4 /\ Cont(o[2]) /\ Cont(o[3]) /\ Cont(o[4])
                  THEN LET c == (o[1] - 240) * 262144 + (o[2] - 128) * 4096 + (o[3] - 128) * 64 + (o[4] - 128)
                       IN IF c < 65536 \/ c > 1114111 THEN bad ELSE one(c, 4)
                  ELSE bad)
            ELSE bad
       [] enc = "utf16" ->
            IF n < 2 THEN bad
            ELSE LET u == o[1] * 256 + o[2] IN
                 IF u >= 55296 /\ u <= 56319 THEN
                    (IF n >= 4 THEN LET l == o[3] * 256 + o[4] IN
                                    IF l >= 56320 /\ l <= 57343 THEN one(65536 + (u - 55296) * 1024 + (l - 56320), 4) ELSE bad
                     ELSE bad)
                 ELSE IF u >= 56320 /\ u <= 57343 THEN bad
                 ELSE one(u, 2)
       [] enc = "utf32" ->
            IF n < 4 THEN bad
            ELSE IF o[1] # 0 \/ o[2] > 16 THEN bad
            ELSE LET c == o[2] * 65536 + o[3] * 256 + o[4] IN IF Surrogate(c) THEN bad ELSE one(c, 4)

Texts == UNION {[1..n -> CodePoints] : n \in 0..MaxLen}

VARIABLES enc, text
vars == <<enc, text>>
Init == enc \in Encodings /\ text \in Texts
Next == UNCHANGED vars
Spec == Init /\ [][Next]_vars

(* the decoder inverts the encoder; every proper truncation inside a character is refused *)
RoundTrip == LET e == Encode(enc, text) IN e.ok => (Decode(enc, e.o).ok /\ Decode(enc, e.o).cps = text)
EncodableIffInRange ==
  Encode(enc, text).ok <=> \A i \in 1..Len(text) :
      CASE enc = "ascii" -> text[i] <= 127 [] enc = "latin1" -> text[i] <= 255 [] OTHER -> ~Surrogate(text[i])
=============================================================================
