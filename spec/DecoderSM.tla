----------------------------- MODULE DecoderSM ------------------------------
(***************************************************************************)
(* The dispatch state machine of the single-item BER decoder               *)
(* (codec/ber/decoder.py: SingleItemDecoder.__call__), the mechanism under *)
(* C08 (termination, "a value or a library error"), C10 and C13.           *)
(*                                                                         *)
(* Every invocation of the decoder is a FRAME; the value decoders call     *)
(* back into the decoder for their members, so frames nest (a stack).      *)
(* Within a frame the code walks the states                                *)
(*    Tag -> Length -> Get -> (ByTag | BySpec) -> (Value | Explicit)       *)
(*    Explicit -> (Value | Error | Raw)      Raw -> Value    Value -> Stop *)
(* one action per `if state is ...` block of the code.  What the blocks    *)
(* decide is a function of what was read (the tag, the length form) and of *)
(* the guiding type - F below - which is what the trace acceptor           *)
(* (Trace_DecoderSM.tla) holds the implementation to, event by event.      *)
(*                                                                         *)
(* Tags are [c |-> class 0..3, k |-> constructed 0/1, n |-> number].       *)
(* spec: "none" | "plain" (a type that matches exactly one tag stack)      *)
(*       | "open" (CHOICE / ANY / anything whose tag map is wider)         *)
(*       | "map"  (a TagMap object: a SET / SEQUENCE position)             *)
(***************************************************************************)
EXTENDS Naturals, Sequences, FiniteSets, TLC

CONSTANTS MaxDepth,      \* nesting bound of the model
          MaxKids        \* members per constructed value in the model

States == {"Tag", "Length", "Get", "ByTag", "BySpec", "Explicit", "Value", "Raw", "Error", "Stop"}

(* universal tag numbers the schemaless decoder knows (TAG_MAP) *)
KnownUniversal == {1, 2, 3, 4, 5, 6, 7, 9, 10, 12, 16, 17, 18, 19, 20, 21, 22, 23, 24, 25, 26, 27, 28, 30}
Known(t) == t.c = 0 /\ t.n \in KnownUniversal

(* position of a state in the walk: strictly increasing along every in-frame step, so a frame takes at most 8 steps *)
Rank(s) == CASE s = "Tag" -> 0 [] s = "Length" -> 1 [] s = "Get" -> 2 [] s = "ByTag" -> 3 [] s = "BySpec" -> 3
             [] s = "Explicit" -> 4 [] s = "Raw" -> 5 [] s = "Error" -> 5 [] s = "Value" -> 6 [] s = "Stop" -> 7

(* the successor state of a frame; env = what the step learnt:                                      *)
(*   tag (Tag step), chosen / concrete (BySpec step: a candidate type was found / it has a codec)   *)
NextState(f, env) ==
  CASE f.st = "Tag" -> "Length"
    [] f.st = "Length" -> "Get"
    [] f.st = "Get" -> IF f.spec = "none" THEN "ByTag" ELSE "BySpec"
    [] f.st = "ByTag" -> IF Known(f.tag) THEN "Value" ELSE "Explicit"
    [] f.st = "BySpec" -> IF env.chosen /\ env.concrete THEN "Value" ELSE "Explicit"
    [] f.st = "Explicit" -> IF f.tag.k = 1 /\ f.tag.c # 0 THEN "Value" ELSE "Error"
    [] f.st = "Raw" -> "Value"
    [] f.st = "Value" -> "Stop"

(* which decoder the Value state runs: "concrete" a type's codec, "explicit" the explicit-tag unwrapper, "raw" *)
DecoderOf(f, env) ==
  IF NextState(f, env) # "Value" THEN f.dec
  ELSE CASE f.st \in {"ByTag", "BySpec"} -> "concrete"
         [] f.st = "Explicit" -> "explicit"
         [] f.st = "Raw" -> "raw"

NoTag == [c |-> 0, k |-> 0, n |-> 0]
NewFrame(entry, eoo, spec, ntags, tag, indef) ==
  [st |-> entry, eoo |-> eoo, spec |-> spec, ntags |-> ntags, tag |-> tag, indef |-> indef, dec |-> "none",
   steps |-> 0, kids |-> 0, fresh |-> TRUE]

(***************************************************************************)
(* The model: the environment (input octets, guiding type) is              *)
(* nondeterministic.                                                       *)
(***************************************************************************)
VARIABLES stack,      \* sequence of frames, innermost last
          out         \* "run" | "value" | "eoo" | "error": how the outermost call ended
vars == <<stack, out>>

Top == stack[Len(stack)]
Tags == [c : {0, 2}, k : 0..1, n : {2, 8}]      \* INTEGER, an unknown universal number, context tags; primitive and constructed
Specs == {"none", "plain", "open", "map"}

Init == /\ \E sp \in Specs : stack = <<NewFrame("Tag", FALSE, sp, 0, NoTag, FALSE)>>
        /\ out = "run"

Replace(f) == [stack EXCEPT ![Len(stack)] = f]

(* Enter: a value decoder calls back for a member.  The explicit-tag unwrapper passes the tags read so far and the *)
(* guiding type on; every other decoder starts a fresh tag stack.                                                  *)
Enter == /\ out = "run" /\ stack # <<>> /\ Top.st = "Value" /\ Len(stack) < MaxDepth /\ Top.kids < MaxKids
         /\ Top.tag.k = 1 \/ Top.indef \/ Top.dec = "raw"    \* the code walks members of ANY indefinite-length encoding,
                                                               \* without insisting on the constructed bit (04 80 .. 00 00)
         /\ \E eoo \in BOOLEAN, sp \in Specs :
               /\ (eoo => Top.indef)
               /\ (Top.dec = "explicit" => sp = Top.spec)
               /\ stack' = Append(Replace([Top EXCEPT !.kids = @ + 1]),
                                  NewFrame("Tag", eoo, sp, IF Top.dec = "explicit" THEN Top.ntags ELSE 0, NoTag, FALSE))
         /\ UNCHANGED out

(* Redispatch: the decoder of an untagged CHOICE has the tag and length of its alternative already; it calls back *)
(* in state Get with both and with the map of its alternatives as the guide                                       *)
Redispatch == /\ out = "run" /\ stack # <<>> /\ Top.st = "Value" /\ Top.dec = "concrete" /\ Top.spec # "none"
              /\ Len(stack) < MaxDepth /\ Top.kids = 0
              /\ stack' = Append(Replace([Top EXCEPT !.kids = @ + 1]), NewFrame("Get", FALSE, "map", Top.ntags, Top.tag, Top.indef))
              /\ UNCHANGED out

(* the end-of-contents octets are found where they are allowed: the frame returns the sentinel at once *)
Pop(result) == IF Len(stack) = 1 THEN stack' = <<>> /\ out' = result
               ELSE stack' = SubSeq(stack, 1, Len(stack) - 1) /\ UNCHANGED out
EooFound == /\ out = "run" /\ stack # <<>> /\ Top.fresh /\ Top.eoo /\ Pop("eoo")

Step == /\ out = "run" /\ stack # <<>> /\ Top.st \notin {"Stop", "Error"}
        /\ \E t \in Tags, indef \in BOOLEAN, chosen \in BOOLEAN, concrete \in BOOLEAN :
             LET f == Top
                 env == [chosen |-> chosen, concrete |-> concrete]
                 g == [f EXCEPT !.st = NextState(f, env), !.dec = DecoderOf(f, env), !.steps = @ + 1, !.fresh = FALSE,
                                !.tag = IF f.st = "Tag" THEN t ELSE @, !.ntags = IF f.st = "Tag" THEN @ + 1 ELSE @,
                                !.indef = IF f.st = "Length" THEN indef ELSE @]
             IN /\ (f.st # "Tag" => t = f.tag) /\ (f.st # "Length" => indef = f.indef)
                /\ (f.st # "BySpec" => chosen /\ concrete)
                /\ stack' = Replace(g)
        /\ UNCHANGED out

Exit == /\ out = "run" /\ stack # <<>> /\ Top.st = "Stop" /\ Pop("value")
Raise == /\ out = "run" /\ stack # <<>> /\ stack' = <<>> /\ out' = "error"       \* any step may fail on its input

Next == Enter \/ Redispatch \/ EooFound \/ Step \/ Exit \/ Raise
Spec == Init /\ [][Next]_vars /\ WF_vars(Next)

(***************************************************************************)
(* Properties of the design                                                *)
(***************************************************************************)
TypeOK == /\ out \in {"run", "value", "eoo", "error"}
          /\ \A i \in 1..Len(stack) : stack[i].st \in States /\ stack[i].dec \in {"none", "concrete", "explicit", "raw"}
(* a frame never takes more than 8 steps: the walk has no cycle *)
FrameStepsBounded == \A i \in 1..Len(stack) : stack[i].steps <= 8 /\ stack[i].steps >= Rank(stack[i].st) - 6
RankIncreases == [][\A i \in 1..Len(stack) : (i <= Len(stack') /\ stack'[i].steps = stack[i].steps + 1)
                                              => Rank(stack'[i].st) > Rank(stack[i].st)]_vars
(* a value is only ever produced by a decoder: the Value state is reached with a codec chosen *)
ValueNeedsDecoder == \A i \in 1..Len(stack) : stack[i].st \in {"Value", "Stop"} => stack[i].dec # "none"
(* only a frame that runs a value decoder has callers below it *)
CallersAreInValue == \A i \in 1..(Len(stack) - 1) : stack[i].st = "Value"
(* the outermost call never reports the end-of-contents sentinel as its result *)
TopNeverEoo == out # "eoo"
(* an unknown, primitive or universal tag without a matching guide ends in the error state, never in a value *)
ExplicitOnlyForTaggedConstructed ==
  \A i \in 1..Len(stack) : stack[i].dec = "explicit" => stack[i].tag.k = 1 /\ stack[i].tag.c # 0
(* every call ends *)
Terminates == <>(out # "run")
=============================================================================
