---------------------------- MODULE CacheWrapInt -----------------------------
(***************************************************************************)
(* Integer abstraction of CacheWrap (same bookkeeping actions, contents    *)
(* dropped) for Apalache: IndInv is an INDUCTIVE invariant for every       *)
(* stream size, buffer size and read size, not only the instance TLC       *)
(* enumerates.  Checked as  Init => IndInv  (length 0) and                 *)
(* IndInv /\ Next => IndInv'  (IndInit as initial predicate, length 1).    *)
(***************************************************************************)
EXTENDS Integers

CONSTANTS
  \* @type: Int;
  Size,
  \* @type: Int;
  Buf

VARIABLES
  \* @type: Int;
  rawPos,
  \* @type: Int;
  base,
  \* @type: Int;
  cpos,
  \* @type: Int;
  clen,
  \* @type: Int;
  mark

ConstInit == Size \in Nat /\ Buf \in Nat

Min(a, b) == IF a <= b THEN a ELSE b
Max(a, b) == IF a >= b THEN a ELSE b

Init == rawPos = 0 /\ base = 0 /\ cpos = 0 /\ clen = 0 /\ mark = 0

Got(n) == Min(n, Size - (base + cpos))

Read(n) == LET got == Got(n)
               fromCache == Min(got, clen - cpos)
           IN /\ cpos' = cpos + got
              /\ clen' = Max(clen, cpos + got)
              /\ rawPos' = rawPos + (got - fromCache)
              /\ UNCHANGED <<base, mark>>

Peek(n) == LET got == Got(n)
               fromCache == Min(got, clen - cpos)
           IN /\ clen' = Max(clen, cpos + got)
              /\ rawPos' = rawPos + (got - fromCache)
              /\ UNCHANGED <<base, mark, cpos>>

SeekBack(d) == /\ d >= 1 /\ d <= cpos /\ cpos - d >= mark
               /\ cpos' = cpos - d
               /\ UNCHANGED <<rawPos, base, clen, mark>>

SetMark == /\ IF cpos > Buf
                THEN base' = base + cpos /\ clen' = clen - cpos /\ cpos' = 0 /\ mark' = 0
                ELSE mark' = cpos /\ UNCHANGED <<base, clen, cpos>>
           /\ UNCHANGED rawPos

Next == (\E n \in Int : n >= 1 /\ (Read(n) \/ Peek(n))) \/ (\E d \in Int : SeekBack(d)) \/ SetMark

IndInv == /\ 0 <= cpos /\ cpos <= clen /\ base + clen = rawPos /\ rawPos <= Size
          /\ 0 <= mark /\ mark <= cpos /\ base >= 0

IndInit == /\ rawPos \in Int /\ base \in Int /\ cpos \in Int /\ clen \in Int /\ mark \in Int /\ IndInv
=============================================================================
