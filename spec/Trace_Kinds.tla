---------------------------- MODULE Trace_Kinds -----------------------------
(***************************************************************************)
(* C11, first clause: the outcome of decoding is a function of the octets, *)
(* not of the object that carries them.  One trace = one input; ev is a    *)
(* flat sequence of 4-tuples <<kind, status, value id, remainder id>>      *)
(* (ids are indices into the run's table of distinct projections); the     *)
(* first tuple is the reference kind (a bytes object).  Each event is one  *)
(* step; a step whose observation differs from the reference is rejected.  *)
(***************************************************************************)
EXTENDS Naturals, Sequences, TLC, Json, IOUtils
Traces == ndJsonDeserialize(IOEnv.TRACE_FILE)
VARIABLES tid, l
F(t, j, k) == Traces[t].ev[4 * (j - 1) + k]
NEv(t) == Len(Traces[t].ev) \div 4
TraceInit == tid \in 1..Len(Traces) /\ l = 0
Step == /\ l < NEv(tid)
        /\ LET t == tid j == l + 1 IN
           IF F(t, j, 2) = F(t, 1, 2) /\ F(t, j, 3) = F(t, 1, 3) /\ F(t, j, 4) = F(t, 1, 4) THEN TRUE
           ELSE PrintT(<<"REJECT", Traces[t].id, j, IF F(t, j, 2) # F(t, 1, 2) THEN "StatusDiffers"
                                                    ELSE IF F(t, j, 3) # F(t, 1, 3) THEN "ValueDiffers" ELSE "RemainderDiffers">>)
        /\ l' = l + 1 /\ UNCHANGED tid
TraceSpec == TraceInit /\ [][Step]_<<tid, l>>
=============================================================================
