------------------------------- MODULE Octets -------------------------------
(***************************************************************************)
(* Octet strings, arbitrary-size naturals ("BigNat": canonical big-endian  *)
(* base-256 digit sequences; TLC integers are 32 bit), bit regrouping      *)
(* 8 <-> 7 (tag numbers, OID arcs) and two's complement.                   *)
(* Everything here is pure definitions shared by all other modules.        *)
(***************************************************************************)
EXTENDS Naturals, Integers, Sequences, FiniteSets, TLC

Byte == 0..255

Min2(a, b) == IF a <= b THEN a ELSE b
Max2(a, b) == IF a >= b THEN a ELSE b

Take(s, n)  == SubSeq(s, 1, n)
Drop(s, n)  == SubSeq(s, n + 1, Len(s))
LastOf(s)   == s[Len(s)]
FrontOf(s)  == SubSeq(s, 1, Len(s) - 1)
Rep(x, n)   == [i \in 1..n |-> x]
RangeOf(s)  == {s[i] : i \in 1..Len(s)}

(* concatenation of a sequence of sequences (divide and conquer: shallow recursion) *)
RECURSIVE Flat(_)
Flat(ss) == IF Len(ss) = 0 THEN <<>>
            ELSE IF Len(ss) = 1 THEN ss[1]
            ELSE LET h == Len(ss) \div 2 IN Flat(SubSeq(ss, 1, h)) \o Flat(SubSeq(ss, h + 1, Len(ss)))

RECURSIVE StripLeading(_, _)
StripLeading(s, z) == IF Len(s) > 0 /\ Head(s) = z THEN StripLeading(Tail(s), z) ELSE s

IsPrefixOf(p, s) == Len(p) <= Len(s) /\ Take(s, Len(p)) = p

(* lexicographic comparison of two sequences of naturals: -1, 0, 1 *)
RECURSIVE LexCmp(_, _)
LexCmp(a, b) ==
  IF Len(a) = 0 THEN (IF Len(b) = 0 THEN 0 ELSE -1)
  ELSE IF Len(b) = 0 THEN 1
  ELSE IF Head(a) < Head(b) THEN -1
  ELSE IF Head(a) > Head(b) THEN 1
  ELSE LexCmp(Tail(a), Tail(b))

(***************************************************************************)
(* BigNat                                                                  *)
(***************************************************************************)
RECURSIVE NatToBig(_)
NatToBig(n) == IF n = 0 THEN <<>> ELSE NatToBig(n \div 256) \o <<n % 256>>

RECURSIVE BigToNatAcc(_, _)
BigToNatAcc(b, acc) == IF Len(b) = 0 THEN acc ELSE BigToNatAcc(Tail(b), acc * 256 + Head(b))
BigToNat(b) == BigToNatAcc(b, 0)            \* only for b < 2^31
BigFitsNat(b) == Len(b) <= 3 \/ (Len(b) = 4 /\ b[1] < 128)

BigNorm(b) == StripLeading(b, 0)
BigCmp(a, b) == IF Len(a) < Len(b) THEN -1 ELSE IF Len(a) > Len(b) THEN 1 ELSE LexCmp(a, b)

(* a + b with carry, both BigNat *)
RECURSIVE BigAddRaw(_, _, _)
BigAddRaw(a, b, carry) ==
  IF Len(a) = 0 /\ Len(b) = 0 THEN (IF carry = 0 THEN <<>> ELSE <<carry>>)
  ELSE LET x == IF Len(a) = 0 THEN 0 ELSE LastOf(a)
           y == IF Len(b) = 0 THEN 0 ELSE LastOf(b)
           s == x + y + carry
       IN BigAddRaw(IF Len(a) = 0 THEN <<>> ELSE FrontOf(a),
                    IF Len(b) = 0 THEN <<>> ELSE FrontOf(b), s \div 256) \o <<s % 256>>
BigAdd(a, b) == BigNorm(BigAddRaw(a, b, 0))
BigInc(a) == BigAdd(a, <<1>>)

(* a - 1 for a > 0 *)
RECURSIVE BigDecRaw(_)
BigDecRaw(a) == IF LastOf(a) > 0 THEN FrontOf(a) \o <<LastOf(a) - 1>>
                ELSE BigDecRaw(FrontOf(a)) \o <<255>>
BigDec(a) == BigNorm(BigDecRaw(a))

(* a * small n (n < 2^15) *)
RECURSIVE BigMulSmallRaw(_, _, _)
BigMulSmallRaw(a, n, carry) ==
  IF Len(a) = 0 THEN NatToBig(carry)
  ELSE LET s == LastOf(a) * n + carry
       IN BigMulSmallRaw(FrontOf(a), n, s \div 256) \o <<s % 256>>
BigMulSmall(a, n) == BigNorm(BigMulSmallRaw(a, n, 0))

(* a - b for a >= b *)
RECURSIVE BigSubRaw(_, _, _)
BigSubRaw(a, b, borrow) ==
  IF Len(a) = 0 THEN <<>>
  ELSE LET x == LastOf(a)
           y == (IF Len(b) = 0 THEN 0 ELSE LastOf(b)) + borrow
           d == IF x >= y THEN x - y ELSE x + 256 - y
       IN BigSubRaw(FrontOf(a), IF Len(b) = 0 THEN <<>> ELSE FrontOf(b),
                    IF x >= y THEN 0 ELSE 1) \o <<d>>
BigSub(a, b) == BigNorm(BigSubRaw(a, b, 0))

(***************************************************************************)
(* Bits                                                                    *)
(***************************************************************************)
ByteBits(x) == << (x \div 128) % 2, (x \div 64) % 2, (x \div 32) % 2, (x \div 16) % 2,
                  (x \div 8) % 2, (x \div 4) % 2, (x \div 2) % 2, x % 2 >>
BitsOfBytes(bs) == Flat([i \in 1..Len(bs) |-> ByteBits(bs[i])])

RECURSIVE BitsToNatAcc(_, _)
BitsToNatAcc(bits, acc) == IF Len(bits) = 0 THEN acc ELSE BitsToNatAcc(Tail(bits), 2 * acc + Head(bits))
BitsToNat(bits) == BitsToNatAcc(bits, 0)

(* regroup a bit sequence whose length is a multiple of g into g-bit numbers *)
Groups(bits, g) == [i \in 1..(Len(bits) \div g) |-> BitsToNat(SubSeq(bits, (i - 1) * g + 1, i * g))]

PadLeftTo(bits, g) == LET r == Len(bits) % g IN IF r = 0 THEN bits ELSE Rep(0, g - r) \o bits
PadRightTo(bits, g) == LET r == Len(bits) % g IN IF r = 0 THEN bits ELSE bits \o Rep(0, g - r)

(* base-128 digits (big endian, at least one) of a BigNat *)
Base128Digits(b) ==
  LET bits == StripLeading(BitsOfBytes(b), 0)
  IN IF Len(bits) = 0 THEN <<0>> ELSE Groups(PadLeftTo(bits, 7), 7)

(* the X.690 "subsequent octets" form: all but the last digit carry bit 8 *)
Base128Octets(b) ==
  LET g == Base128Digits(b) IN [i \in 1..Len(g) |-> IF i < Len(g) THEN 128 + g[i] ELSE g[i]]

SevenBits(x) == << (x \div 64) % 2, (x \div 32) % 2, (x \div 16) % 2,
                   (x \div 8) % 2, (x \div 4) % 2, (x \div 2) % 2, x % 2 >>

(* BigNat denoted by a sequence of base-128 digits *)
FromBase128Digits(ds) ==
  LET bits == StripLeading(Flat([i \in 1..Len(ds) |-> SevenBits(ds[i] % 128)]), 0)
  IN Groups(PadLeftTo(bits, 8), 8)

(***************************************************************************)
(* Signed integers: [neg |-> BOOLEAN, mag |-> BigNat]; zero is not negative*)
(***************************************************************************)
IntZero == [neg |-> FALSE, mag |-> <<>>]
MkInt(neg, mag) == [neg |-> (neg /\ Len(mag) > 0), mag |-> mag]
SmallInt(i) == IF i < 0 THEN [neg |-> TRUE, mag |-> NatToBig(0 - i)] ELSE [neg |-> FALSE, mag |-> NatToBig(i)]

(* minimal two's complement contents octets (X.690 8.3) *)
TwosComplement(v) ==
  IF Len(v.mag) = 0 THEN <<0>>
  ELSE IF ~v.neg THEN (IF v.mag[1] >= 128 THEN <<0>> \o v.mag ELSE v.mag)
  ELSE LET m1 == BigDec(v.mag)
           p  == IF Len(m1) = 0 THEN <<0>> ELSE IF m1[1] >= 128 THEN <<0>> \o m1 ELSE m1
       IN [i \in 1..Len(p) |-> 255 - p[i]]

(* value of (possibly non-minimal) two's complement octets; <<>> denotes 0 *)
FromTwosComplement(c) ==
  IF Len(c) = 0 THEN IntZero
  ELSE IF c[1] < 128 THEN [neg |-> FALSE, mag |-> BigNorm(c)]
  ELSE [neg |-> TRUE, mag |-> BigInc(BigNorm([i \in 1..Len(c) |-> 255 - c[i]]))]

IntToSmall(v) == IF v.neg THEN 0 - BigToNat(v.mag) ELSE BigToNat(v.mag)
=============================================================================
