------------------------------ MODULE ScalarObj ------------------------------
(***************************************************************************)
(* INTEGER and OCTET STRING value objects as the Python numbers / byte      *)
(* strings they duck-type (type/univ.py: Integer, OctetString): every       *)
(* operator of the object protocol is one action of a history machine; the  *)
(* result of an operation is again a value object of the same type holding  *)
(* the mathematically expected value.  Replayed next to BitStr / Oid        *)
(* (C14 part: "arithmetic, slicing, concatenation").                        *)
(***************************************************************************)
EXTENDS Integers, Sequences, TLC

CONSTANTS MaxOps

(* ---- INTEGER ---- *)
IntStarts == {0, 1, -1, 7, -8, 255}
IntOperands == {0, 1, 3, -3}
IntOps == [o : {"add", "radd", "sub", "rsub", "mul", "floordiv", "mod", "and", "or", "xor", "lshift", "rshift"}, x : IntOperands]
          \cup [o : {"pow"}, x : {0, 1, 3}]       \* (a negative exponent leaves the integers: the library truncates the float, not modelled)
          \cup [o : {"neg", "pos", "abs", "invert"}, x : {0}]

RECURSIVE Pow(_, _)
Pow(b, n) == IF n = 0 THEN 1 ELSE b * Pow(b, n - 1)
(* floor division and modulo with the sign of the divisor, as Python defines them (TLC's \div, % need a positive divisor) *)
FloorDiv(a, b) == IF b > 0 THEN a \div b ELSE (-a) \div (-b)
PyMod(a, b) == a - b * FloorDiv(a, b)
(* bitwise operators on two's-complement integers of unbounded width, through 12-bit windows (enough for the values here) *)
W == 4096
ToBits(a) == LET u == IF a >= 0 THEN a ELSE W + a IN [i \in 0..11 |-> (u \div Pow(2, i)) % 2]
FromBits(f) == LET u == f[0] + 2 * f[1] + 4 * f[2] + 8 * f[3] + 16 * f[4] + 32 * f[5] + 64 * f[6] + 128 * f[7] + 256 * f[8]
                        + 512 * f[9] + 1024 * f[10] + 2048 * f[11]
               IN IF u >= 2048 THEN u - W ELSE u
BitOp(a, b, F(_, _)) == FromBits([i \in 0..11 |-> F(ToBits(a)[i], ToBits(b)[i])])
And2(p, q) == p * q
Or2(p, q) == IF p + q > 0 THEN 1 ELSE 0
Xor2(p, q) == (p + q) % 2

Defined(a, op) ==
  CASE op.o \in {"floordiv", "mod"} -> op.x # 0
    [] op.o \in {"lshift", "rshift"} -> op.x >= 0
    [] op.o = "pow" -> op.x >= 0
    [] OTHER -> TRUE
IntApply(a, op) ==
  CASE op.o \in {"add", "radd"} -> a + op.x
    [] op.o = "sub" -> a - op.x
    [] op.o = "rsub" -> op.x - a
    [] op.o = "mul" -> a * op.x
    [] op.o = "floordiv" -> FloorDiv(a, op.x)
    [] op.o = "mod" -> PyMod(a, op.x)
    [] op.o = "and" -> BitOp(a, op.x, And2)
    [] op.o = "or" -> BitOp(a, op.x, Or2)
    [] op.o = "xor" -> BitOp(a, op.x, Xor2)
    [] op.o = "lshift" -> a * Pow(2, op.x)
    [] op.o = "rshift" -> FloorDiv(a, Pow(2, op.x))
    [] op.o = "pow" -> Pow(a, op.x)
    [] op.o = "neg" -> -a
    [] op.o = "pos" -> a
    [] op.o = "abs" -> IF a < 0 THEN -a ELSE a
    [] op.o = "invert" -> -a - 1

(* ---- OCTET STRING ---- *)
OctStarts == { <<>>, <<0>>, <<97, 98, 99>>, <<255, 0, 1, 2>> }
OctOperands == { <<>>, <<0>>, <<120, 121>> }
SliceArgs == {0, 1, 2, -1, 99}
OctOps == [o : {"concat", "rconcat"}, x : OctOperands] \cup [o : {"repeat"}, n : {0, 1, 2}] \cup [o : {"slice"}, i : SliceArgs, j : SliceArgs]
Rep(s, n) == [i \in 1..(n * Len(s)) |-> s[((i - 1) % Len(s)) + 1]]
Clamp(n, x) == IF x < 0 THEN (IF n + x < 0 THEN 0 ELSE n + x) ELSE (IF x > n THEN n ELSE x)
SliceOf(s, i, j) == LET lo == Clamp(Len(s), i)  hi == Clamp(Len(s), j) IN IF hi <= lo THEN <<>> ELSE SubSeq(s, lo + 1, hi)
OctApply(s, op) ==
  CASE op.o = "concat" -> s \o op.x
    [] op.o = "rconcat" -> op.x \o s
    [] op.o = "repeat" -> IF op.n = 0 \/ s = <<>> THEN <<>> ELSE Rep(s, op.n)
    [] op.o = "slice" -> SliceOf(s, op.i, op.j)

(* ---- the two history machines, run side by side ---- *)
VARIABLES kind, start, hist, val, okv
vars == <<kind, start, hist, val, okv>>
Small(a) == a > -2000 /\ a < 2000          \* keeps every intermediate inside the 12-bit window of the bitwise operators
Init == \/ kind = "int" /\ start \in IntStarts /\ hist = <<>> /\ val = start /\ okv = TRUE
        \/ kind = "oct" /\ start \in OctStarts /\ hist = <<>> /\ val = start /\ okv = TRUE
Next == /\ okv /\ Len(hist) < MaxOps /\ UNCHANGED <<kind, start>>
        /\ \/ /\ kind = "int"
              /\ \E op \in IntOps :
                    /\ (op.o = "pow" => val >= -12 /\ val <= 12)      \* keeps the cube inside Small (and TLC's 32-bit integers)
                    /\ hist' = Append(hist, op)
                    /\ IF Defined(val, op) THEN (LET r == IntApply(val, op) IN Small(r) /\ val' = r /\ okv' = TRUE)
                       ELSE val' = val /\ okv' = FALSE            \* division by zero, negative shift or exponent: refused
           \/ /\ kind = "oct"
              /\ \E op \in OctOps : hist' = Append(hist, op) /\ val' = OctApply(val, op) /\ okv' = TRUE
Spec == Init /\ [][Next]_vars

(* laws *)
DivModLaw == kind = "int" => \A b \in {1, 3, -3} : val = b * FloorDiv(val, b) + PyMod(val, b)
                                                    /\ (b > 0 => PyMod(val, b) \in 0..(b - 1)) /\ (b < 0 => PyMod(val, b) \in (b + 1)..0)
InvertIsXorMinusOne == kind = "int" => IntApply(val, [o |-> "invert", x |-> 0]) = BitOp(val, -1, Xor2)
DeMorganBits == kind = "int" => \A b \in IntOperands : BitOp(val, b, And2) = -(BitOp(-val - 1, -b - 1, Or2)) - 1
RepeatLength == kind = "oct" => \A n \in {0, 1, 2} : Len(OctApply(val, [o |-> "repeat", n |-> n])) = n * Len(val)
=============================================================================
