----------------------------- MODULE Trace_Wrap -----------------------------
(***************************************************************************)
(* Acceptor for operation histories executed on the real                   *)
(* CachingStreamWrapper (C11).  One trace = [id, size, buf, ev] with ev a  *)
(* flat sequence of 5-tuples <<op, n, first, got, tell>>:                  *)
(*   op 1 = read(n)  2 = peek(n)  3 = seek back by n  4 = mark := tell()   *)
(*   first/got = absolute index of the first unit returned and how many    *)
(*   units came back (the raw stream's units carry their own index),       *)
(*   tell = what tell() answered afterwards.                               *)
(*   op 5 = n more units arrive at the raw stream (traces with nb = 1: a   *)
(*   non-blocking raw stream that starts empty, delivers what has arrived  *)
(*   - possibly fewer units than asked for - and answers None when nothing *)
(*   is pending; the wrapper must then behave like a seekable stream over  *)
(*   the units that have arrived so far).                                  *)
(* Each event is one action of CacheWrap with the logged fields bound.     *)
(***************************************************************************)
EXTENDS Naturals, Integers, Sequences, TLC, Json, IOUtils

Traces == ndJsonDeserialize(IOEnv.TRACE_FILE)
Min(a, b) == IF a <= b THEN a ELSE b
Max(a, b) == IF a >= b THEN a ELSE b

VARIABLES tid, l, rawPos, base, cpos, clen, mark, avail
tvars == <<tid, l, rawPos, base, cpos, clen, mark, avail>>

F(t, j, k) == Traces[t].ev[5 * (j - 1) + k]
NEv(t) == Len(Traces[t].ev) \div 5
Reject(t, j, clause) == PrintT(<<"REJECT", Traces[t].id, j, clause>>)
Chk(t, j, clause, cond) == IF cond THEN TRUE ELSE Reject(t, j, clause)

TraceInit == tid \in 1..Len(Traces) /\ l = 0 /\ rawPos = 0 /\ base = 0 /\ cpos = 0 /\ clen = 0 /\ mark = 0
             /\ avail = (IF Traces[tid].nb = 1 THEN 0 ELSE Traces[tid].size)

Step ==
  /\ l < NEv(tid)
  /\ LET t == tid  j == l + 1
         op == F(t, j, 1)  n == F(t, j, 2)  first == F(t, j, 3)  got == F(t, j, 4)  tell == F(t, j, 5)
         size == Traces[t].size  buf == Traces[t].buf
         abs == base + cpos
         want == Min(n, avail - abs)
         fromCache == Min(want, clen - cpos)
     IN CASE op = 1 ->
               /\ Chk(t, j, "ReadLength", got = want)
               /\ Chk(t, j, "ReadBytes", got = 0 \/ first = abs)
               /\ cpos' = cpos + want /\ clen' = Max(clen, cpos + want) /\ rawPos' = rawPos + (want - fromCache)
               /\ Chk(t, j, "Tell", tell = cpos + want)
               /\ UNCHANGED <<base, mark, avail>>
          [] op = 2 ->
               /\ Chk(t, j, "PeekLength", got = want)
               /\ Chk(t, j, "PeekBytes", got = 0 \/ first = abs)
               /\ clen' = Max(clen, cpos + want) /\ rawPos' = rawPos + (want - fromCache)
               /\ Chk(t, j, "Tell", tell = cpos)
               /\ UNCHANGED <<base, mark, cpos, avail>>
          [] op = 3 ->
               /\ cpos' = cpos - n
               /\ Chk(t, j, "Tell", tell = cpos - n)
               /\ UNCHANGED <<rawPos, base, clen, mark, avail>>
          [] op = 4 ->
               /\ IF cpos > buf
                    THEN base' = base + cpos /\ clen' = clen - cpos /\ cpos' = 0 /\ mark' = 0
                         /\ Chk(t, j, "Tell", tell = 0)
                    ELSE mark' = cpos /\ UNCHANGED <<base, clen, cpos>> /\ Chk(t, j, "Tell", tell = cpos)
               /\ UNCHANGED <<rawPos, avail>>
          [] op = 5 ->
               /\ avail' = Min(size, avail + n)
               /\ Chk(t, j, "Tell", tell = cpos)
               /\ UNCHANGED <<rawPos, base, cpos, clen, mark>>
  /\ l' = l + 1 /\ UNCHANGED tid

TraceSpec == TraceInit /\ [][Step]_tvars
=============================================================================
