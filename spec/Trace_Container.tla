-------------------------- MODULE Trace_Container ---------------------------
(***************************************************************************)
(* Acceptor for operation histories executed on real pyasn1 container      *)
(* objects (C19).  One trace = [id, kind ("so"|"ch"|"sq"|"st"), ev]; one   *)
(* event = one public API call with its outcome and the object's           *)
(* projection afterwards:                                                  *)
(*   [o, i, v, res ("ok" | "lookup" | "pyasn1" | "crash"), ret, isv, len,  *)
(*    el (elements / fields / <<cur, val>>), derst, der, cisv, cel]        *)
(* Every event is one step: the model's Apply* gives the expected outcome  *)
(* and next abstract state; after the first rejection the rest of the      *)
(* trace is consumed unjudged (its state is no longer the model's).        *)
(***************************************************************************)
EXTENDS Container, X690, Json, IOUtils

Traces == ndJsonDeserialize(IOEnv.TRACE_FILE)
VARIABLES tid, l, st, dead
tvars == <<tid, l, st, dead>>

IntT == [k |-> "int", tags |-> <<>>]
IntTag(n) == [k |-> "int", tags |-> << [m |-> "I", c |-> 2, n |-> NatToBig(n)] >>]
SOType == [k |-> "seqof", tags |-> <<>>, of |-> IntT]
CHType == [k |-> "choice", tags |-> <<>>, alts |-> << [name |-> "x", t |-> IntT], [name |-> "y", t |-> IntTag(1)], [name |-> "z", t |-> IntTag(2)] >>]
SQType == [k |-> "seq", tags |-> <<>>, comps |-> << [name |-> "a", t |-> IntT, mode |-> "req"],
                                                     [name |-> "b", t |-> IntTag(0), mode |-> "opt"],
                                                     [name |-> "c", t |-> IntTag(1), mode |-> "def", dflt |-> SmallInt(DfltC)] >>]

STType == [SQType EXCEPT !.k = "set"]
InitOf(k) == IF k = "so" THEN SOInit ELSE IF k = "ch" THEN CHInit ELSE SQInit
ApplyOf(k, s, op) == IF k = "so" THEN ApplySO(s, op) ELSE IF k = "ch" THEN ApplyCH(s, op)
                     ELSE IF k = "st" THEN ApplyST(s, op) ELSE ApplySQ(s, op)
IsValueOf(k, s) == IF k = "so" THEN SOIsValue(s) ELSE IF k = "ch" THEN (s.cur # 0 /\ s.val # PH) ELSE SQIsValue(s)
LenOf(k, s) == IF k = "so" THEN Len(s.el) ELSE IF k = "ch" THEN (IF s.cur = 0 THEN 0 ELSE 1) ELSE NComp
ElOf(k, s) == IF k = "so" THEN s.el ELSE IF k = "ch" THEN <<s.cur - 1, s.val>> ELSE SQObs(s)
DerOf(k, s) ==
  IF k = "so" THEN DER(SOType, [es |-> [i \in 1..Len(s.el) |-> SmallInt(s.el[i])]])
  ELSE IF k = "ch" THEN DER(CHType, [alt |-> s.cur, v |-> SmallInt(s.val)])
  ELSE DER(IF k = "st" THEN STType ELSE SQType, [cs |-> << [p |-> TRUE, v |-> SmallInt(s.f[1])],
                              IF s.f[2] \in {NONE, PH} THEN [p |-> FALSE] ELSE [p |-> TRUE, v |-> SmallInt(s.f[2])],
                              IF s.f[3] \in {NONE, PH} THEN [p |-> FALSE] ELSE [p |-> TRUE, v |-> SmallInt(s.f[3])] >>])

Reject(t, j, clause) == PrintT(<<"REJECT", Traces[t].id, j, clause>>)

TraceInit == tid \in 1..Len(Traces) /\ l = 0 /\ st = InitOf(Traces[tid].kind) /\ dead = FALSE

(* len() of a SEQUENCE counts the slots allocated so far, not the declared components: not compared *)
SameObs(k, e, s) == e.isv = IsValueOf(k, s) /\ (k \in {"sq", "st"} \/ e.len = LenOf(k, s)) /\ e.el = ElOf(k, s)

(* the verdict on event e when the model, in state s, answers r *)
ClauseOf(k, e, s, r) ==
  IF r.ok
  THEN IF e.res = "crash" THEN "Crash"
       ELSE IF e.res # "ok" /\ ~r.lenient THEN "WellFormedRefused"
       ELSE IF e.res = "ok" /\ r.ret # NORET /\ e.ret # r.ret THEN "ReturnDiffers"
       ELSE IF ~SameObs(k, e, r.st) THEN (IF r.st = s THEN "ReadChangedObject" ELSE "StateDiffers")
       ELSE IF IsValueOf(k, r.st) /\ (e.derst # "ok" \/ e.der # DerOf(k, r.st)) THEN "EncodingDiffers"
       ELSE IF e.res = "ok" /\ e.o = "clone" /\ ~(e.cisv = IsValueOf(k, r.st) /\ e.cel = ElOf(k, r.st)) THEN "CloneDiffers"
       ELSE IF e.res = "ok" /\ e.o = "cloneschema" /\ ~(e.cisv = FALSE /\ e.cel = ElOf(k, InitOf(k))) THEN "CloneDiffers"
       ELSE "ok"
  ELSE IF e.res = "crash" THEN "Crash"
       ELSE IF e.res = "ok" THEN "IllFormedAccepted"
       ELSE IF ~SameObs(k, e, s) THEN "IllFormedChangedObject"
       ELSE "ok"

Step ==
  /\ l < Len(Traces[tid].ev)
  /\ l' = l + 1 /\ UNCHANGED tid
  /\ IF dead THEN UNCHANGED <<st, dead>>
     ELSE LET t == tid  j == l + 1  k == Traces[t].kind  e == Traces[t].ev[j]
              op == [o |-> e.o, i |-> e.i, v |-> e.v]
              r == ApplyOf(k, st, op)
              clause == ClauseOf(k, e, st, r)
              rl == IF k = "ch" THEN ApplyCHLib(st, op) ELSE r        \* the library's named deviation, if any applies here
          IN IF clause = "ok" THEN st' = (IF r.ok THEN r.st ELSE st) /\ dead' = FALSE
             ELSE IF rl # r /\ ClauseOf(k, e, st, rl) = "ok"
                  THEN PrintT(<<"DEV", Traces[t].id, j, {"F18"}>>) /\ st' = rl.st /\ dead' = FALSE
             ELSE Reject(t, j, clause) /\ dead' = TRUE /\ st' = (IF r.ok THEN r.st ELSE st)

TraceSpec == TraceInit /\ [][Step]_tvars

(* model-level property of the CHOICE machine, checked on every state the acceptor passes through *)
ChoiceOk == Traces[tid].kind = "ch" => ChoiceAtMostOne(st)
=============================================================================
