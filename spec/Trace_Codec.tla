---------------------------- MODULE Trace_Codec -----------------------------
(***************************************************************************)
(* Acceptor for codec traces recorded from the real library.               *)
(*                                                                         *)
(* A trace (one line of the ndjson file) is a session of the Codec machine *)
(* on the real pyasn1: [id, T, v, ev] where ev is the sequence of recorded *)
(* events (library encode / decode calls with everything they returned).   *)
(* Every event is consumed by one step; the step binds the logged fields   *)
(* and evaluates the clauses of the reference model (X690) on them.  A     *)
(* clause that does not hold prints <<"REJECT", id, event index, clause>>; *)
(* all traces are judged in one TLC run (tid chosen in Init).              *)
(***************************************************************************)
EXTENDS X690, Json, IOUtils, TLCExt

Cases == ndJsonDeserialize(IOEnv.TRACE_FILE)

VARIABLES tid, l
tvars == <<tid, l>>

Check(t, i, clause, cond) == IF cond THEN TRUE ELSE PrintT(<<"REJECT", Cases[t].id, i, clause>>)

RulesName(r) == IF r = "der" THEN "DER" ELSE IF r = "cer" THEN "CER" ELSE "BER"

HeadersOk(T, wire) ==
  LET ts == TagsOf(T) t == ReadTLV(wire) IN
  Len(ts) = 0 \/
  (t.st = "ok" /\
   LET hc == HeaderChain(t.node, Len(ts)) IN
     /\ Len(hc) = Len(ts)
     /\ \A i \in 1..Len(ts) : hc[i].c = ts[i].c /\ hc[i].n = ts[i].n
     /\ \A i \in 1..(Len(ts) - 1) : hc[i].f = 1)

EncDevs == {"F1", "F4", "F26", "F28"}
LibMode(e) == IF e.codec = "der" THEN DERMode ELSE IF e.codec = "cer" THEN CERMode ELSE LibBER(e.def, e.chunk)
(* the smallest set of named deviations under which the reference encoder reproduces the recorded bytes *)
Explains(T, v, e) ==
  LET S == {D \in SUBSET EncDevs : D # {} /\ e.wire = Enc([LibMode(e) EXCEPT !.dev = D], 0, T, v)}
  IN IF S = {} THEN {} ELSE CHOOSE D \in S : \A D2 \in S : Cardinality(D) <= Cardinality(D2)

JudgeEnc(t, i, T, v, e) ==
  IF e.st # "ok" THEN Check(t, i, "EncRefused", FALSE)
  ELSE
    LET x == ReadTLV(e.wire)
        c1 == e.codec = "der" => e.wire = DER(T, v)
        c2 == e.codec = "cer" => e.wire = CER(T, v)
        c3 == ParsesTo("BER", T, e.wire, v, <<>>)
        c4 == x.st = "ok" /\ x.e = Len(e.wire) + 1
        c5 == HeadersOk(T, e.wire)
    IN IF c1 /\ c2 /\ c3 /\ c4 /\ c5 THEN TRUE
       ELSE /\ Check(t, i, "DerIdentity", c1) /\ Check(t, i, "CerCanonical", c2) /\ Check(t, i, "RefReads", c3)
            /\ Check(t, i, "OneTLV", c4) /\ Check(t, i, "Headers", c5)
            /\ LET D == Explains(T, v, e) IN
                 IF D = {} THEN TRUE ELSE PrintT(<<"DEV", Cases[t].id, i, D>>)

JudgeDec(t, i, T, v, e) ==
  /\ Check(t, i, "Crash", e.st # "crash")
  /\ e.st # "crash" =>
     CASE e.why \in {"own", "form", "tail"} ->
            /\ Check(t, i, "Rejected", e.st = "ok")
            /\ e.st = "ok" =>
                 /\ Check(t, i, "NotAValue", e.proj = "ok")
                 /\ e.proj = "ok" => Check(t, i, "ValueDiffers", Norm(T, e.v) = Norm(T, v))
                 /\ Check(t, i, "RestDiffers", e.rest = e.tail)
       [] e.why = "prefix" -> Check(t, i, "NotUnderrun", e.st = "underrun")
       [] e.why \in {"rewrite", "nearmiss"} -> Check(t, i, "Accepted", e.st \in {"error", "underrun"})
       [] e.why = "free" ->   \* arbitrary input: differential against the reference reader where it is "ok"
            LET x == Parse(RulesName(e.rules), T, e.inp) IN
            (x.st = "ok" /\ e.st = "ok" /\ e.proj = "ok") => Check(t, i, "ValueDiffers", Norm(T, e.v) = x.v)

(* schemaless decode of a self-describing encoding (C16) *)
JudgeDecU(t, i, T, v, e) ==
  /\ Check(t, i, "Crash", e.st # "crash")
  /\ e.st # "crash" =>
      /\ Check(t, i, "Rejected", e.st = "ok")
      /\ e.st = "ok" =>
           /\ Check(t, i, "NotAValue", e.isvalue)
           /\ e.isvalue =>
                /\ (e.reenc_st = "ok" /\ e.codec = "der" => Check(t, i, "ReencodeDiffers", e.reenc = e.inp))
                /\ Check(t, i, "ReencodeRefused", e.reenc_st = "ok")
                /\ Check(t, i, "LeavesDiffer",
                         IF HasSetLike(T) THEN BagEq(e.leaves, Leaves(T, v)) ELSE e.leaves = Leaves(T, v))
           /\ Check(t, i, "RestDiffers", e.rest = <<>>)

(* several decoders accepted the same input: same abstract value (C02) *)
JudgeAgree(t, i, T, v, e) ==
  Check(t, i, "Disagree", \A a, b \in 1..Len(e.vs) : Norm(T, e.vs[a]) = Norm(T, e.vs[b]))

Judge(t, i) ==
  LET c == Cases[t] e == c.ev[i] IN
  CASE e.op = "enc" -> JudgeEnc(t, i, c.T, c.v, e)
    [] e.op = "dec" -> JudgeDec(t, i, c.T, c.v, e)
    [] e.op = "decu" -> JudgeDecU(t, i, c.T, c.v, e)
    [] e.op = "agree" -> JudgeAgree(t, i, c.T, c.v, e)

TraceInit == tid \in 1..Len(Cases) /\ l = 0
TraceNext == /\ l < Len(Cases[tid].ev)
             /\ l' = l + 1
             /\ Judge(tid, l')
             /\ UNCHANGED tid
TraceSpec == TraceInit /\ [][TraceNext]_tvars

(* every event of every trace was consumed: total number of distinct states *)
TotalEvents == LET n == Len(Cases) IN n
=============================================================================
