---------------------------- MODULE Trace_Codec -----------------------------
(***************************************************************************)
(* Acceptor for codec traces recorded from the real library.               *)
(*                                                                         *)
(* A trace (one line of the ndjson file) is a session of the Codec machine *)
(* on the real pyasn1: [id, T, v, ev] where ev is the sequence of recorded *)
(* events (library encode / decode calls with everything they returned).   *)
(* Every event is consumed by one step; the step binds the logged fields   *)
(* and evaluates the clauses of the reference model (X690) on them.  A     *)
(* clause that does not hold prints <<"REJECT", id, event index, clause>>; *)
(* all traces are judged in one TLC run (tid chosen in Init).              *)
(***************************************************************************)
EXTENDS WellTyped, Json, IOUtils, TLCExt

Cases == ndJsonDeserialize(IOEnv.TRACE_FILE)

VARIABLES tid, l
tvars == <<tid, l>>

Check(t, i, clause, cond) == IF cond THEN TRUE ELSE PrintT(<<"REJECT", Cases[t].id, i, clause>>)

RulesName(r) == IF r = "der" THEN "DER" ELSE IF r = "cer" THEN "CER" ELSE "BER"

HeadersOk(T, wire) ==
  LET ts == TagsOf(T) t == ReadTLV(wire) IN
  Len(ts) = 0 \/
  (t.st = "ok" /\
   LET hc == HeaderChain(t.node, Len(ts)) IN
     /\ Len(hc) = Len(ts)
     /\ \A i \in 1..Len(ts) : hc[i].c = ts[i].c /\ hc[i].n = ts[i].n
     /\ \A i \in 1..(Len(ts) - 1) : hc[i].f = 1)

EncDevs == {"F1", "F4", "F26", "F28"}
LibMode(e) == IF e.codec = "der" THEN DERMode ELSE IF e.codec = "cer" THEN CERMode ELSE LibBER(e.def, e.chunk)
(* the smallest set of named deviations under which the reference encoder reproduces the recorded bytes *)
Explains(T, v, e) ==
  IF e.wire = Enc(LibMode(e), 0, T, v) THEN {}       \* nothing to explain: it is the reference encoding
  ELSE LET S == {D \in SUBSET EncDevs : D # {} /\ e.wire = Enc([LibMode(e) EXCEPT !.dev = D], 0, T, v)}
       IN IF S = {} THEN {} ELSE CHOOSE D \in S : \A D2 \in S : Cardinality(D) <= Cardinality(D2)

JudgeEnc(t, i, T, v, e) ==
  IF e.st # "ok" THEN Check(t, i, "EncRefused", FALSE)
  ELSE
    LET x == ReadTLV(e.wire)
        c1 == e.codec = "der" => e.wire = DER(T, v)
        c2 == e.codec = "cer" => e.wire = CER(T, v)
        c3 == ParsesTo("BER", T, e.wire, v, <<>>)
        c4 == x.st = "ok" /\ x.e = Len(e.wire) + 1
        c5 == HeadersOk(T, e.wire)
    IN IF c1 /\ c2 /\ c3 /\ c4 /\ c5 THEN TRUE
       ELSE /\ Check(t, i, "DerIdentity", c1) /\ Check(t, i, "CerCanonical", c2) /\ Check(t, i, "RefReads", c3)
            /\ Check(t, i, "OneTLV", c4) /\ Check(t, i, "Headers", c5)
            /\ LET D == Explains(T, v, e) IN
                 IF D = {} THEN TRUE ELSE PrintT(<<"DEV", Cases[t].id, i, D>>)

(* a decode of an encoding the library itself produced (e.src = index of the recorded encode event):  *)
(* when that encoding is exactly the reference encoding under named deviations, the input is not a    *)
(* valid encoding and the decode failure is attributed to the same finding                            *)
SrcDevs(t, T, v, e) ==
  IF e.src = 0 THEN {}
  ELSE LET s == Cases[t].ev[e.src] IN
       IF s.op # "enc" \/ s.st # "ok" THEN {}
       ELSE IF e.inp # s.wire \o e.tail THEN {} ELSE Explains(T, v, s)

JudgeDec(t, i, T, v, e) ==
  IF e.st = "crash" THEN Check(t, i, "Crash", FALSE)
  ELSE
     CASE e.why \in {"own", "form", "tail"} ->
            LET c1 == e.st = "ok"
                c2 == e.st = "ok" => e.proj = "ok"
                c3 == (e.st = "ok" /\ e.proj = "ok") => Norm(T, e.v) = Norm(T, v)
                c4 == e.st = "ok" => e.rest = e.tail
            IN IF c1 /\ c2 /\ c3 /\ c4 THEN TRUE
               ELSE /\ Check(t, i, "Rejected", c1) /\ Check(t, i, "NotAValue", c2)
                    /\ Check(t, i, "ValueDiffers", c3) /\ Check(t, i, "RestDiffers", c4)
                    /\ LET D == SrcDevs(t, T, v, e) IN IF D = {} THEN TRUE ELSE PrintT(<<"DEV", Cases[t].id, i, D>>)
       [] e.why = "prefix" ->
            IF e.st = "underrun" THEN TRUE
            ELSE /\ Check(t, i, "NotUnderrun", FALSE)
                 /\ LET D == SrcDevs(t, T, v, [e EXCEPT !.inp = Cases[t].ev[e.src].wire]) IN
                      IF e.src = 0 \/ D = {} THEN TRUE ELSE PrintT(<<"DEV", Cases[t].id, i, D>>)
       [] e.why = "nearmiss" ->   \* e.T2 = the decoding type with one tagging operation perturbed
            IF TagsOf(e.T2) = TagsOf(T) THEN TRUE     \* the perturbed operation is hidden by a later IMPLICIT one
            ELSE Check(t, i, "Accepted", e.st \in {"error", "underrun"})
       [] e.why = "rewrite" ->
            \* a candidate rewrite is judged only if the reference confirms it is a legitimate
            \* non-canonical form: same value under the BER reader, refused by the strict reader
            LET b == Parse("BER", T, e.inp)
                d == Parse(RulesName(e.rules), T, e.inp)
            IN IF b.st = "ok" /\ b.v = Norm(T, v) /\ Len(b.rest) = 0 /\ d.st = "err"
                  /\ (e.guided \/ NoImplicit(T))   \* without the type only self-describing encodings qualify
               THEN Check(t, i, "Accepted", e.st \in {"error", "underrun"})
               ELSE PrintT(<<"SKIP", Cases[t].id, i>>)
       [] e.why = "free" ->   \* arbitrary input: differential against the reference reader where it is "ok"
            LET x == Parse(RulesName(e.rules), T, e.inp) IN
            IF x.st = "ok" /\ e.st = "ok" /\ e.proj = "ok" THEN Check(t, i, "ValueDiffers", Norm(T, e.v) = x.v) ELSE TRUE

(* the tag set of the type object equals the model's tag list, outermost first (C13) *)
JudgeTags(t, i, T, v, e) ==
  LET ts == TagsOf(T) IN
  Check(t, i, "TagSetDiffers",
        /\ Len(e.tags) = Len(ts)
        /\ \A j \in 1..Len(ts) : e.tags[j].c = ts[j].c /\ e.tags[j].f = ts[j].f /\ e.tags[j].n = ts[j].n)

(* explicit tagging refuses exactly the UNIVERSAL class (C13) *)
JudgeTagX(t, i, T, v, e) == Check(t, i, "ExplicitUniversal", (e.st = "raise") = ~ExplicitAllowed(e.cls))

(* schemaless decode of a self-describing encoding (C16) *)
JudgeDecU(t, i, T, v, e) ==
  IF e.st = "crash" THEN Check(t, i, "Crash", FALSE)
  ELSE
    LET c1 == e.st = "ok"
        c2 == e.st = "ok" => e.isvalue
        ok == e.st = "ok" /\ e.isvalue
        c3 == ok => e.reenc_st = "ok"
        c4 == (ok /\ e.reenc_st = "ok" /\ e.codec = "der") => e.reenc = e.inp
        c5 == ok => (IF HasSetLike(T) THEN BagEq(e.leaves, Leaves(T, v)) ELSE e.leaves = Leaves(T, v))
        c6 == e.st = "ok" => Len(e.rest) = 0
    IN IF c1 /\ c2 /\ c3 /\ c4 /\ c5 /\ c6 THEN TRUE
       ELSE /\ Check(t, i, "Rejected", c1) /\ Check(t, i, "NotAValue", c2) /\ Check(t, i, "ReencodeRefused", c3)
            /\ Check(t, i, "ReencodeDiffers", c4) /\ Check(t, i, "LeavesDiffer", c5) /\ Check(t, i, "RestDiffers", c6)
            /\ LET D == SrcDevs(t, T, v, [e EXCEPT !.tail = <<>>]) IN IF D = {} THEN TRUE ELSE PrintT(<<"DEV", Cases[t].id, i, D>>)

(* every proper prefix of one encoding, decoded one-shot: e.sts[k+1] is the outcome for the first k octets (C06) *)
JudgePfxs(t, i, T, v, e) ==
  LET bad == {k \in 1..Len(e.sts) : e.sts[k] # "underrun"} IN
  IF bad = {} THEN TRUE
  ELSE IF ~e.guided /\ ~NoImplicit(T) THEN TRUE   \* without its type only a self-describing encoding is an encoding at all
  ELSE /\ \A k \in bad : PrintT(<<"REJECTK", Cases[t].id, i, IF e.sts[k] = "crash" THEN "Crash" ELSE "NotUnderrun", k - 1>>)
       /\ IF e.src = 0 THEN TRUE
          ELSE LET D == Explains(T, v, Cases[t].ev[e.src]) IN IF D = {} THEN TRUE ELSE PrintT(<<"DEV", Cases[t].id, i, D>>)

(* open types (ANY DEFINED BY), C18.  e = [codec, def, chunk, Tin, vin (the inner type and value(s), a sequence:  *)
(* one element for a scalar ANY field, several for SET OF / SEQUENCE OF ANY), resolved (TRUE: the decoder was      *)
(* expected to resolve: resolution on and the governing value mapped), st, fields (per inner value: [typed, v]     *)
(* with typed = TRUE and v the projection under Tin, or typed = FALSE and v = [o |-> raw octets])]                *)
JudgeOpen(t, i, T, v, e) ==
  IF e.st = "crash" THEN Check(t, i, "Crash", FALSE)
  ELSE IF e.st # "ok" THEN Check(t, i, "Rejected", FALSE)
  ELSE /\ Check(t, i, "FieldCount", Len(e.fields) = Len(e.vin))
       /\ Len(e.fields) = Len(e.vin) =>
            \A j \in 1..Len(e.vin) :
               IF e.resolved
               THEN /\ Check(t, i, "NotResolved", e.fields[j].typed)
                    /\ (IF e.fields[j].typed THEN Check(t, i, "InnerValueDiffers", Norm(e.Tin, e.fields[j].v) = Norm(e.Tin, e.vin[j])) ELSE TRUE)
               ELSE /\ Check(t, i, "ResolvedUnasked", ~e.fields[j].typed)
                    /\ (IF ~e.fields[j].typed
                        THEN Check(t, i, "RawOctetsDiffer", e.fields[j].v.o = Enc(LibMode(e), 0, e.Tin, e.vin[j]))
                        ELSE TRUE)

(* whatever a guided decoder accepts is a complete, re-encodable value of the type (C10) *)
JudgeWT(t, i, T, v, e) ==
  IF e.st = "crash" THEN Check(t, i, "Crash", FALSE)
  ELSE IF e.st # "ok" THEN TRUE                       \* refusing is always allowed
  ELSE IF e.proj # "ok" THEN Check(t, i, "NotAValue", FALSE)
  ELSE /\ Check(t, i, "IllTyped", WT(T, e.v))
       /\ Check(t, i, "ReencodeRefused", e.reenc_st = "ok")
       /\ (IF e.reenc_st = "ok"
           THEN /\ Check(t, i, "RedecodeRefused", e.redec_st = "ok")
                /\ (IF e.redec_st = "ok" THEN Check(t, i, "FixpointDiffers", Norm(T, e.v2) = Norm(T, e.v)) ELSE TRUE)
           ELSE TRUE)

(* one abstract value reached by several construction histories (C04): e.ders[k] / e.cers[k] are the DER / CER   *)
(* octets of history k (<<>> with e.sts[k] = "raise" when the encoder refused)                                   *)
JudgeHist(t, i, T, v, e) ==
  LET K == 1..Len(e.ders) IN
  /\ Check(t, i, "EncodableDependsOnHistory", \A k \in K : e.sts[k] = e.sts[1])
  /\ Check(t, i, "DerDependsOnHistory", \A k \in K : (e.sts[k] = "ok" /\ e.sts[1] = "ok") => e.ders[k] = e.ders[1])
  /\ Check(t, i, "CerDependsOnHistory", \A k \in K : (e.sts[k] = "ok" /\ e.sts[1] = "ok") => e.cers[k] = e.cers[1])
  \* the history of the PROCESS (what was encoded before) must not matter either: the bytes are the reference's
  /\ (IF e.sts[1] # "ok" \/ e.ders[1] = DER(T, v) THEN TRUE
      ELSE /\ Check(t, i, "DerNotTheCanonicalBytes", FALSE)
           /\ LET D == Explains(T, v, [codec |-> "der", def |-> TRUE, chunk |-> 0, wire |-> e.ders[1]])
              IN IF D = {} THEN TRUE ELSE PrintT(<<"DEV", Cases[t].id, i, D>>))

(* several decoders accepted the same input: same abstract value (C02) *)
JudgeAgree(t, i, T, v, e) ==
  Check(t, i, "Disagree", \A a, b \in 1..Len(e.vs) : Norm(T, e.vs[a]) = Norm(T, e.vs[b]))

Judge(t, i) ==
  LET c == Cases[t] e == c.ev[i] IN
  CASE e.op = "enc" -> JudgeEnc(t, i, c.T, c.v, e)
    [] e.op = "dec" -> JudgeDec(t, i, c.T, c.v, e)
    [] e.op = "decu" -> JudgeDecU(t, i, c.T, c.v, e)
    [] e.op = "agree" -> JudgeAgree(t, i, c.T, c.v, e)
    [] e.op = "open" -> JudgeOpen(t, i, c.T, c.v, e)
    [] e.op = "wt" -> JudgeWT(t, i, c.T, c.v, e)
    [] e.op = "hist" -> JudgeHist(t, i, c.T, c.v, e)
    [] e.op = "same" -> Check(t, i, "Disagree", e.a = e.b)      \* two library paths, same octets (C17)
    [] e.op = "pfxs" -> JudgePfxs(t, i, c.T, c.v, e)
    [] e.op = "tags" -> JudgeTags(t, i, c.T, c.v, e)
    [] e.op = "tagx" -> JudgeTagX(t, i, c.T, c.v, e)

TraceInit == tid \in 1..Len(Cases) /\ l = 0
TraceNext == /\ l < Len(Cases[tid].ev)
             /\ l' = l + 1
             /\ Judge(tid, l')
             /\ UNCHANGED tid
TraceSpec == TraceInit /\ [][TraceNext]_tvars

(* every event of every trace was consumed: total number of distinct states *)
TotalEvents == LET n == Len(Cases) IN n
=============================================================================
