----------------------------- MODULE Trace_Time -----------------------------
(***************************************************************************)
(* Acceptor for C20.  One trace = a batch of independent events, one step  *)
(* each:                                                                   *)
(*  [op |-> "rt", kind, in, out, st]  T.fromDateTime(dt).asDateTime:       *)
(*       in/out = <<year, month, day, hour, minute, second, millisecond,   *)
(*       offset>> (offset in minutes, 9999 = naive; a naive input counts   *)
(*       as UTC), st = "ok" | "raise"                                      *)
(*  [op |-> "enc", kind, codec, text, st, out]  cer/der.encode(T(text)):   *)
(*       out = the contents octets emitted                                 *)
(***************************************************************************)
EXTENDS Time, Json, IOUtils
Traces == ndJsonDeserialize(IOEnv.TRACE_FILE)
VARIABLES tid, l
Reject(t, j, clause) == PrintT(<<"REJECT", Traces[t].id, j, clause>>)
Chk(t, j, clause, cond) == IF cond THEN TRUE ELSE Reject(t, j, clause)

NormOff(o) == IF o = 9999 THEN 0 ELSE o       \* a datetime without offset is taken as UTC

JudgeRT(t, j, e) ==
  IF e.st # "ok" THEN Reject(t, j, "RoundTripRaised")
  ELSE /\ Chk(t, j, "InstantChanged", SubSeq(e.out, 1, 7) = SubSeq(e.in, 1, 7) \/ NormOff(e.out[8]) # NormOff(e.in[8]))
       /\ Chk(t, j, "OffsetChanged", NormOff(e.out[8]) = NormOff(e.in[8]))

JudgeEnc(t, j, e) ==
  LET p == ParseTime(e.kind, e.text) IN
  IF ~p.ok THEN TRUE                                       \* not in the X.680 grammar: nothing is claimed
  ELSE IF p.zone # "Z" THEN Chk(t, j, "NonUtcAccepted", e.st = "raise")
  ELSE IF e.st = "ok"
       THEN LET good == Canonical(e.kind, e.out) /\ (p.ss # -1 /\ ~p.comma => SameInstantZ(e.kind, e.text, e.out))
            IN IF good THEN TRUE
               ELSE IF ~p.comma /\ e.out = LibTimeOut(e.text) /\ LibTimeDevs(e.text) # {}
                    THEN PrintT(<<"DEV", Traces[t].id, j, LibTimeDevs(e.text)>>)     \* exactly the known scanning defect
               ELSE /\ Chk(t, j, "NotCanonical", Canonical(e.kind, e.out))
                    /\ (IF p.ss # -1 /\ ~p.comma THEN Chk(t, j, "InstantChanged", SameInstantZ(e.kind, e.text, e.out)) ELSE TRUE)
       ELSE TRUE        \* refusing a UTC value is not excluded by the property (only accepting a non-UTC one is)

TraceInit == tid \in 1..Len(Traces) /\ l = 0
Step == /\ l < Len(Traces[tid].ev)
        /\ LET e == Traces[tid].ev[l + 1] IN
           IF e.op = "rt" THEN JudgeRT(tid, l + 1, e) ELSE JudgeEnc(tid, l + 1, e)
        /\ l' = l + 1 /\ UNCHANGED tid
TraceSpec == TraceInit /\ [][Step]_<<tid, l>>
=============================================================================
