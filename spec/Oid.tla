--------------------------------- MODULE Oid ---------------------------------
(***************************************************************************)
(* OBJECT IDENTIFIER value objects as immutable sequences of arcs          *)
(* (type/univ.py: ObjectIdentifier) - behaviour of the type system beyond  *)
(* the listed properties, replayed next to BitStr.tla (C14 part).          *)
(* State: the current arcs and the history of operations that made them;   *)
(* operations: s + x, x + s, s[i:j]; observables: the arcs, the dotted     *)
(* text, length, membership, index, the prefix relation.                   *)
(***************************************************************************)
EXTENDS Naturals, Integers, Sequences, TLC

CONSTANTS MaxOps

Starts == { <<1, 3>>, <<2, 999>>, <<1, 3, 6, 1>>, <<0, 0>> }
Operands == { <<>>, <<0>>, <<6, 1>>, <<2147483647>> }     \* incl. the largest arc TLC's integers can hold
SliceArgs == {0, 1, 2, -1, 99}

Clamp(n, x) == IF x < 0 THEN (IF n + x < 0 THEN 0 ELSE n + x) ELSE (IF x > n THEN n ELSE x)
SliceOf(s, i, j) == LET lo == Clamp(Len(s), i)  hi == Clamp(Len(s), j) IN IF hi <= lo THEN <<>> ELSE SubSeq(s, lo + 1, hi)

Apply(s, op) ==
  CASE op.o = "concat" -> s \o op.x
    [] op.o = "rconcat" -> op.x \o s
    [] op.o = "slice" -> SliceOf(s, op.i, op.j)

Ops == [o : {"concat", "rconcat"}, x : Operands] \cup [o : {"slice"}, i : SliceArgs, j : SliceArgs]

IsPrefix(a, b) == Len(a) <= Len(b) /\ a = SubSeq(b, 1, Len(a))
Contains(s, x) == \E i \in 1..Len(s) : s[i] = x
FirstIndex(s, x) == IF Contains(s, x) THEN (CHOOSE i \in 1..Len(s) : s[i] = x /\ \A j \in 1..(i - 1) : s[j] # x) - 1 ELSE -1

VARIABLES start, hist, arcs
vars == <<start, hist, arcs>>
Init == start \in Starts /\ hist = <<>> /\ arcs = start
Next == /\ Len(hist) < MaxOps
        /\ \E op \in Ops : hist' = Append(hist, op) /\ arcs' = Apply(arcs, op)
        /\ UNCHANGED start
Spec == Init /\ [][Next]_vars

TypeOK == \A i \in 1..Len(arcs) : arcs[i] \in Nat
PrefixReflexive == IsPrefix(arcs, arcs)
StartIsPrefixAfterConcat == [][(hist' # hist /\ hist'[Len(hist')].o = "concat") => IsPrefix(arcs, arcs')]_vars
=============================================================================
